// Package c27 decides property C27: subscription API calls and the publish
// loop never deadlock.
//
// Generator: a rapid-drawn script of 3-14 actions against one opcua.Client
// (RequestTimeout 500 ms, AutoReconnect on or off, ReconnectInterval 50 ms)
// connected to a scripted server (pkg/script). Application actions, each run
// in a goroutine of its own with a context that never expires: Subscribe,
// Subscription.Cancel (also of a subscription that was cancelled before),
// Client.ForgetSubscription, Subscription.Monitor, Subscription.Unmonitor. The
// application's notification reader reads at once; in half of the cases it
// calls Client.SubscriptionIDs for every notification (unbuffered channel).
// Environment actions: the server releases the outstanding PublishRequest
// (keep-alive, or a message with two data change notifications), fails it with
// a ServiceFault (BadNoSubscription, BadTimeout, BadTooManyPublishRequests,
// BadInternalError, BadSessionIdInvalid, BadSubscriptionIdInvalid,
// BadSequenceNumberUnknown), withholds it (the client's publish timeout is
// 500 ms), or drops every connection. Per case the server keeps or loses the
// session across a reconnect and transfers or refuses the subscriptions.
//
// Oracle: after the script the server answers every outstanding and every
// further PublishRequest (truthfully: data for a subscription it has,
// BadNoSubscription if it has none). Then (1) every API call has returned
// within 30 s (>= 20x the longest legitimate wait of the scenario, which is a
// request timeout of 500 ms or the client's own 1 s back-off sleeps);
// (2) if the client still has a registered subscription that the server has
// too, PublishRequests keep arriving; (3) a fresh Subscribe returns and a
// PublishRequest arrives afterwards. A failure is reported only if two
// goroutine dumps taken 1 s apart show the goroutines concerned (the blocked
// API calls; the publish loop) parked at the same gopcua frames, and only if
// two re-executions of the case fail too (DESIGN 3.4); otherwise the case is
// counted inconclusive.
package c27

import (
	"context"
	"encoding/json"
	"errors"
	"fmt"
	"io"
	"log"
	"os"
	"regexp"
	"runtime"
	"sort"
	"strconv"
	"strings"
	"sync"
	"testing"
	"time"

	"github.com/gopcua/opcua"
	"github.com/gopcua/opcua/debug"
	"github.com/gopcua/opcua/ua"
	"pgregory.net/rapid"

	"verif/pkg/ev"
	"verif/pkg/script"
	"verif/pkg/starve"
)

func TestMain(m *testing.M) {
	log.SetOutput(io.Discard)
	if os.Getenv("VERIF_C27_DEV_DEBUG") != "" {
		// development only: gopcua's debug log on stdout
		log.SetOutput(os.Stdout)
		log.SetFlags(log.Lmicroseconds)
		debug.Enable = true
	}
	ev.Main(m)
}

var rec = ev.For("C27", "rapid-drawn scripts of 3-14 actions over one opcua.Client against a scripted server: Subscribe / Cancel (also repeated) / ForgetSubscription / Monitor / Unmonitor, each in its own goroutine, interleaved with the server releasing, failing (ServiceFault), withholding the outstanding PublishResponse or dropping the connection; AutoReconnect on and off; session kept or lost and subscriptions transferred or not on reconnect; non-trivial = at least one API call was issued while a PublishRequest was outstanding (unanswered and younger than the publish timeout); distinct by hash of the drawn script")

const requestTimeout = 500 * time.Millisecond

// longest legitimate wait in the scenario: one request timeout (500 ms), the
// publish loop's 1 s sleep after BadTooManyPublishRequests, or the 1 s sleep
// between republish requests: 30 s is >= 20x that.
var (
	hangBound     = 30 * time.Second
	progressBound = 30 * time.Second
)

func init() {
	// development only: shorter bounds while hunting (never set by the driver)
	if d, err := time.ParseDuration(os.Getenv("VERIF_C27_DEV_BOUND")); err == nil && d > 0 {
		hangBound, progressBound = d, d
	}
}

// kfMonitorStopped: same root cause as KF-C21-1. With AutoReconnect(false) any
// response with a bad ServiceResult (other than BadNoSubscription) or the loss
// of the connection ends Client.monitor, which cancels the publish loop; the
// tokens already queued on resumech / pausech (capacity 2) are never consumed
// and the next sender blocks forever.
const kfMonitorStopped = "api-call-after-monitor-stopped:AutoReconnect=false:client_sub.go:resumech/pausech"

// kfDeadConn: a connection loss or failing request that arrives while
// Client.monitor is still restoring subscriptions after a previous reconnect
// used to be lost (the monitor discarded the error of the broken connection
// when it "clears sechan errors from reconnection") and left the client
// Connected on a dead connection for ever. /repo commit e25d395 (found by C25)
// repaired that, so no finding with this id is open and faults are injected at
// any moment. Should a finding KF-C27-1 with this signature be opened again,
// the script defers a second fault until the reconnect caused by the first one
// has finished (DESIGN 3.5: excluded by construction) and a failure with this
// signature is attributed to it.
const (
	kfDeadConn   = "fault-during-reconnect:Connected-on-dead-connection:client.go:monitor-clears-sechanErr"
	kfDeadConnID = "KF-C27-1"
)

func excludeFaultDuringReconnect() bool {
	return ev.HasOpen("C27", kfDeadConnID) || os.Getenv("VERIF_C27_DEV_ASSUME_KF") != ""
}

// ---------------------------------------------------------------------------
// case

// Action is one step of the script.
type Action struct {
	Op     string `json:"op"`               // subscribe cancel forget monitor unmonitor drop release fail withhold
	Sub    int    `json:"sub,omitempty"`    // index into the subscriptions created so far (mod their number)
	Status uint32 `json:"status,omitempty"` // fail: service result of the fault
	Data   bool   `json:"data,omitempty"`   // release: data change instead of keep-alive
	WaitMs int    `json:"wait_ms"`          // api call: how long the script waits for it to return before going on; withhold: pause
}

// Case is the replayable unit.
type Case struct {
	AutoReconnect bool      `json:"auto_reconnect"`
	SessionLost   bool      `json:"session_lost"` // the server forgets the session when the connection is lost
	TransferOK    bool      `json:"transfer_ok"`  // TransferSubscriptions succeeds for subscriptions the server has
	ReaderCalls   bool      `json:"reader_calls"` // the application's notification reader (unbuffered channel) calls Client.SubscriptionIDs for every notification
	Actions       []Action  `json:"actions"`
	Observed      *Observed `json:"observed,omitempty"`
}

// Observed describes a failing execution.
type Observed struct {
	Verdict string   `json:"verdict"`
	Calls   []string `json:"calls,omitempty"`
	Parked  []string `json:"parked_goroutines,omitempty"`
	State   string   `json:"client_state,omitempty"`
	Subs    []uint32 `json:"client_subscription_ids,omitempty"`
	All     []string `json:"all_gopcua_goroutines,omitempty"`
	Events  []string `json:"events,omitempty"`
	Others  []string `json:"confirmations,omitempty"`
}

var faultStatuses = []ua.StatusCode{
	ua.StatusBadNoSubscription, ua.StatusBadTimeout, ua.StatusBadTooManyPublishRequests, ua.StatusBadInternalError,
	ua.StatusBadSessionIDInvalid, ua.StatusBadSubscriptionIDInvalid, ua.StatusBadSequenceNumberUnknown,
}

func genCase(t *rapid.T) Case {
	c := Case{
		AutoReconnect: rapid.IntRange(0, 3).Draw(t, "autoReconnect") > 0,
		SessionLost:   rapid.Bool().Draw(t, "sessionLost"),
		TransferOK:    rapid.Bool().Draw(t, "transferOK"),
		ReaderCalls:   rapid.Bool().Draw(t, "readerCalls"),
	}
	// rapid's integer generators favour small values; the modulo spreads the
	// script lengths and the operations evenly (and still shrinks towards 0)
	n := 3 + int(rapid.Uint64().Draw(t, "nactions")%uint64(ev.Pick(10, 12)))
	for i := 0; i < n; i++ {
		var a Action
		x := int(rapid.Uint64().Draw(t, "op") % 100)
		if i == 0 {
			x = 0 // a script without a subscription says nothing
		}
		switch {
		case x < 24:
			a.Op = "subscribe"
		case x < 44:
			a.Op = "cancel"
		case x < 54:
			a.Op = "forget"
		case x < 60:
			a.Op = "monitor"
		case x < 64:
			a.Op = "unmonitor"
		case x < 69:
			a.Op = "drop"
		case x < 81:
			a.Op = "release"
			a.Data = rapid.Bool().Draw(t, "data")
		case x < 91:
			a.Op = "fail"
			a.Status = uint32(rapid.SampledFrom(faultStatuses).Draw(t, "status"))
		default:
			a.Op = "withhold"
		}
		switch a.Op {
		case "subscribe", "cancel", "forget", "monitor", "unmonitor":
			a.Sub = rapid.IntRange(0, 5).Draw(t, "sub")
			a.WaitMs = rapid.SampledFrom([]int{0, 0, 5, 30, 150}).Draw(t, "waitMs")
		case "withhold":
			a.WaitMs = rapid.SampledFrom([]int{20, 100, 300, 650}).Draw(t, "pauseMs")
		case "drop":
			a.WaitMs = rapid.SampledFrom([]int{0, 30, 200}).Draw(t, "afterDropMs")
		}
		c.Actions = append(c.Actions, a)
	}
	return c
}

// ---------------------------------------------------------------------------
// scripted server

type pubReq struct {
	conn     *script.Conn
	id       uint32
	req      *ua.PublishRequest
	at       time.Time
	answered bool
}

type world struct {
	c   Case
	srv *script.Server

	mu       sync.Mutex
	pubs     []*pubReq
	arrivals int
	live     map[uint32]bool
	nextSub  uint32
	seq      map[uint32]uint32
	tokConn  map[string]int // authentication token -> connection that created the session
	auto     bool
	autoFrom int  // arrivals when the server began to answer everything
	lied     bool // BadNoSubscription sent while the server had subscriptions
	faults   int
	events   []string
	t0       time.Time
	open     map[int]bool // connections that are not closed
}

func (w *world) onConn(c *script.Conn) {
	w.mu.Lock()
	w.open[c.ID] = true
	w.mu.Unlock()
}

func (w *world) onClose(c *script.Conn, err error) {
	w.mu.Lock()
	delete(w.open, c.ID)
	w.logf("server: conn#%d closed (%v)", c.ID, err)
	w.mu.Unlock()
}

func (w *world) logf(format string, args ...any) {
	// callers hold w.mu
	w.events = append(w.events, fmt.Sprintf("%6dms ", time.Since(w.t0).Milliseconds())+fmt.Sprintf(format, args...))
	if len(w.events) > 400 {
		w.events = w.events[len(w.events)-400:]
	}
}

func (w *world) note(format string, args ...any) {
	w.mu.Lock()
	w.logf(format, args...)
	w.mu.Unlock()
}

func (w *world) lowestLive() (uint32, bool) {
	var ids []uint32
	for id := range w.live {
		ids = append(ids, id)
	}
	if len(ids) == 0 {
		return 0, false
	}
	sort.Slice(ids, func(i, j int) bool { return ids[i] < ids[j] })
	return ids[0], true
}

// answer responds to a publish request. kind: keepalive | data | fault. Callers hold w.mu.
func (w *world) answer(p *pubReq, kind string, status ua.StatusCode) {
	if p.answered {
		return
	}
	p.answered = true
	var resp ua.Response
	switch kind {
	case "fault":
		if status == ua.StatusBadNoSubscription && len(w.live) > 0 {
			w.lied = true
		}
		w.faults++
		resp = script.Fault(p.req, status)
		w.logf("server: conn#%d publish %d <- fault %v", p.conn.ID, p.id, status)
	default:
		id, ok := w.lowestLive()
		if !ok {
			resp = script.Fault(p.req, ua.StatusBadNoSubscription)
			w.logf("server: conn#%d publish %d <- BadNoSubscription (no subscription)", p.conn.ID, p.id)
			break
		}
		if kind == "data" {
			w.seq[id]++
			dc := script.DataChange(p.req, id, w.seq[id], map[uint32]*ua.DataValue{1: {EncodingMask: ua.DataValueValue, Value: ua.MustVariant(int32(w.seq[id]))}})
			// a notification message may carry several notifications (Part 4, 7.21):
			// the application gets them one after the other
			dc.NotificationMessage.NotificationData = append(dc.NotificationMessage.NotificationData,
				ua.NewExtensionObject(&ua.DataChangeNotification{MonitoredItems: []*ua.MonitoredItemNotification{{ClientHandle: 2, Value: &ua.DataValue{EncodingMask: ua.DataValueValue, Value: ua.MustVariant(int32(w.seq[id]))}}}, DiagnosticInfos: []*ua.DiagnosticInfo{}}))
			resp = dc
			if !w.auto {
				w.logf("server: conn#%d publish %d <- data sub %d seq %d", p.conn.ID, p.id, id, w.seq[id])
			}
		} else {
			resp = script.KeepAlive(p.req, id, w.seq[id]+1)
			if !w.auto {
				w.logf("server: conn#%d publish %d <- keep-alive sub %d", p.conn.ID, p.id, id)
			}
		}
	}
	conn, id := p.conn, p.id
	go func() { _ = conn.Respond(id, resp) }()
}

func (w *world) handle(conn *script.Conn, req ua.Request, reqID uint32) bool {
	switch r := req.(type) {
	case *ua.PublishRequest:
		w.mu.Lock()
		p := &pubReq{conn: conn, id: reqID, req: r, at: time.Now()}
		w.pubs = append(w.pubs, p)
		if len(w.pubs) > 4096 {
			w.pubs = w.pubs[len(w.pubs)-2048:]
		}
		w.arrivals++
		if w.auto {
			time.AfterFunc(20*time.Millisecond, func() {
				w.mu.Lock()
				w.answer(p, "data", 0)
				w.mu.Unlock()
			})
		} else {
			w.logf("server: conn#%d publish %d arrived", conn.ID, reqID)
		}
		if w.auto && w.arrivals <= w.autoFrom+6 {
			w.logf("server: conn#%d publish %d arrived (answered in 20 ms)", conn.ID, reqID)
		}
		w.mu.Unlock()
		return true
	case *ua.CreateSessionRequest:
		resp, err := w.srv.CreateSessionResponse(conn, r)
		if err != nil {
			return false
		}
		w.mu.Lock()
		w.tokConn[resp.AuthenticationToken.String()] = conn.ID
		w.mu.Unlock()
		_ = conn.Respond(reqID, resp)
		return true
	case *ua.ActivateSessionRequest:
		w.mu.Lock()
		home, known := w.tokConn[r.RequestHeader.AuthenticationToken.String()]
		lost := w.c.SessionLost && known && home != conn.ID
		if lost {
			w.logf("server: conn#%d ActivateSession of the session of conn#%d <- BadSessionIdInvalid", conn.ID, home)
		} else {
			w.logf("server: conn#%d ActivateSession ok", conn.ID)
		}
		w.mu.Unlock()
		if lost {
			_ = conn.Respond(reqID, script.Fault(req, ua.StatusBadSessionIDInvalid))
			return true
		}
		return false
	case *ua.CreateSubscriptionRequest:
		w.mu.Lock()
		w.nextSub++
		id := w.nextSub
		w.live[id] = true
		w.logf("server: conn#%d CreateSubscription -> %d", conn.ID, id)
		w.mu.Unlock()
		_ = conn.Respond(reqID, &ua.CreateSubscriptionResponse{ResponseHeader: script.Header(req, ua.StatusOK), SubscriptionID: id,
			RevisedPublishingInterval: r.RequestedPublishingInterval, RevisedLifetimeCount: r.RequestedLifetimeCount, RevisedMaxKeepAliveCount: r.RequestedMaxKeepAliveCount})
		return true
	case *ua.DeleteSubscriptionsRequest:
		res := make([]ua.StatusCode, len(r.SubscriptionIDs))
		w.mu.Lock()
		for i, id := range r.SubscriptionIDs {
			if w.live[id] {
				delete(w.live, id)
			} else {
				res[i] = ua.StatusBadSubscriptionIDInvalid
			}
		}
		w.logf("server: conn#%d DeleteSubscriptions %v -> %v", conn.ID, r.SubscriptionIDs, res)
		w.mu.Unlock()
		_ = conn.Respond(reqID, &ua.DeleteSubscriptionsResponse{ResponseHeader: script.Header(req, ua.StatusOK), Results: res, DiagnosticInfos: []*ua.DiagnosticInfo{}})
		return true
	case *ua.TransferSubscriptionsRequest:
		res := make([]*ua.TransferResult, len(r.SubscriptionIDs))
		w.mu.Lock()
		for i, id := range r.SubscriptionIDs {
			st := ua.StatusBadSubscriptionIDInvalid
			if w.c.TransferOK && w.live[id] {
				st = ua.StatusOK
			}
			res[i] = &ua.TransferResult{StatusCode: st, AvailableSequenceNumbers: []uint32{}}
		}
		w.logf("server: conn#%d TransferSubscriptions %v (ok=%v)", conn.ID, r.SubscriptionIDs, w.c.TransferOK)
		w.mu.Unlock()
		_ = conn.Respond(reqID, &ua.TransferSubscriptionsResponse{ResponseHeader: script.Header(req, ua.StatusOK), Results: res, DiagnosticInfos: []*ua.DiagnosticInfo{}})
		return true
	}
	return false
}

// outstanding returns the newest unanswered publish request on the newest
// connection that is younger than the client's publish timeout. Callers hold w.mu.
func (w *world) outstanding() *pubReq {
	for i := len(w.pubs) - 1; i >= 0; i-- {
		p := w.pubs[i]
		if !p.answered && time.Since(p.at) < requestTimeout-50*time.Millisecond {
			return p
		}
	}
	return nil
}

// ---------------------------------------------------------------------------
// client side

type hsub struct {
	s     *opcua.Subscription
	id    uint32 // id at creation
	items []uint32
}

type call struct {
	idx   int
	desc  string
	start time.Time
	done  chan struct{}
	err   error
	dur   time.Duration
}

type run struct {
	c         Case
	stMu      sync.Mutex
	states    []opcua.ConnState // every state the client reported
	disturbed int               // len(states) when the last fault was injected (-1: none pending)
	w         *world
	cl        *opcua.Client
	ctx       context.Context
	mu        sync.Mutex
	subs      []*hsub
	all       []*call
	nt        bool // some api call was issued while a publish was outstanding
	deferred  bool // a fault was deferred because of the open known finding
	cls       map[string]bool
	nch       chan *opcua.PublishNotificationData
}

// apiCallGoroutine is the body of every API call goroutine; its name marks the
// goroutine in stack dumps.
func apiCallGoroutine(c *call, f func() error) {
	defer close(c.done)
	defer func() {
		if p := recover(); p != nil {
			c.err = fmt.Errorf("panic: %v", p)
		}
	}()
	c.err = f()
	c.dur = time.Since(c.start)
}

func (r *run) launch(idx int, desc string, waitMs int, f func() error) {
	r.w.mu.Lock()
	out := r.w.outstanding() != nil
	r.w.logf("app: %s issued (publish outstanding: %v)", desc, out)
	r.w.mu.Unlock()
	if out {
		r.nt = true
		r.cls["api-call-while-publish-outstanding"] = true
	}
	c := &call{idx: idx, desc: desc, start: time.Now(), done: make(chan struct{})}
	r.mu.Lock()
	r.all = append(r.all, c)
	r.mu.Unlock()
	go apiCallGoroutine(c, f)
	go func() {
		<-c.done
		r.w.note("app: %s returned after %v: %v", desc, c.dur.Round(time.Millisecond), c.err)
	}()
	if waitMs > 0 {
		select {
		case <-c.done:
		case <-time.After(time.Duration(waitMs) * time.Millisecond):
			r.cls["api-call-still-running-when-next-action-starts"] = true
		}
	}
}

func (r *run) onState(s opcua.ConnState) {
	r.stMu.Lock()
	r.states = append(r.states, s)
	r.stMu.Unlock()
}

func (r *run) disturb() {
	r.stMu.Lock()
	r.disturbed = len(r.states)
	r.stMu.Unlock()
}

// settle waits until the reconnect caused by the previous fault has finished
// (only while the known finding about faults during a reconnect is open).
func (r *run) settle() {
	r.stMu.Lock()
	from := r.disturbed
	r.stMu.Unlock()
	if from < 0 || !r.c.AutoReconnect || !excludeFaultDuringReconnect() {
		return
	}
	t0 := time.Now()
	wait := func(bound time.Duration, ok func(after []opcua.ConnState) bool) bool {
		deadline := time.Now().Add(bound)
		for {
			r.stMu.Lock()
			good := ok(r.states[from:])
			r.stMu.Unlock()
			if good {
				return true
			}
			if time.Now().After(deadline) {
				return false
			}
			time.Sleep(2 * time.Millisecond)
		}
	}
	noticed := wait(2*time.Second, func(after []opcua.ConnState) bool {
		for _, s := range after {
			if s != opcua.Connected {
				return true
			}
		}
		return false
	})
	if !noticed {
		r.cls["fault-not-noticed-by-the-connection-monitor"] = true
	} else {
		wait(10*time.Second, func(after []opcua.ConnState) bool { return len(after) > 0 && after[len(after)-1] == opcua.Connected })
		time.Sleep(50 * time.Millisecond) // the monitor finishes its bookkeeping after reporting Connected
		if time.Since(t0) > 60*time.Millisecond {
			r.cls["next-fault-deferred-until-reconnect-finished("+kfDeadConnID+")"] = true
			r.deferred = true
		}
	}
	r.stMu.Lock()
	r.disturbed = -1
	r.stMu.Unlock()
}

func (r *run) pick(i int) *hsub {
	r.mu.Lock()
	defer r.mu.Unlock()
	if len(r.subs) == 0 {
		return nil
	}
	return r.subs[i%len(r.subs)]
}

func (r *run) subscribe(idx, waitMs int) {
	r.launch(idx, fmt.Sprintf("#%d Subscribe", idx), waitMs, func() error {
		s, err := r.cl.Subscribe(r.ctx, &opcua.SubscriptionParameters{Interval: 100 * time.Millisecond, MaxKeepAliveCount: 5, LifetimeCount: 100}, r.nch)
		if err == nil {
			r.mu.Lock()
			r.subs = append(r.subs, &hsub{s: s, id: s.SubscriptionID})
			r.mu.Unlock()
		}
		return err
	})
}

func (r *run) do(idx int, a Action) {
	switch a.Op {
	case "subscribe":
		r.subscribe(idx, a.WaitMs)
	case "cancel":
		h := r.pick(a.Sub)
		if h == nil {
			r.cls["action-skipped(no-subscription-yet)"] = true
			return
		}
		r.mu.Lock()
		n := 0
		for _, c := range r.all {
			if strings.HasSuffix(c.desc, fmt.Sprintf("Cancel(sub created as %d)", h.id)) {
				n++
			}
		}
		r.mu.Unlock()
		if n > 0 {
			r.cls["cancel-repeated-on-same-subscription"] = true
		}
		r.launch(idx, fmt.Sprintf("#%d Cancel(sub created as %d)", idx, h.id), a.WaitMs, func() error { return h.s.Cancel(r.ctx) })
	case "forget":
		h := r.pick(a.Sub)
		if h == nil {
			r.cls["action-skipped(no-subscription-yet)"] = true
			return
		}
		r.launch(idx, fmt.Sprintf("#%d ForgetSubscription(%d)", idx, h.id), a.WaitMs, func() error { r.cl.ForgetSubscription(r.ctx, h.s.SubscriptionID); return nil })
	case "monitor":
		h := r.pick(a.Sub)
		if h == nil {
			r.cls["action-skipped(no-subscription-yet)"] = true
			return
		}
		r.launch(idx, fmt.Sprintf("#%d Monitor(sub created as %d)", idx, h.id), a.WaitMs, func() error {
			res, err := h.s.Monitor(r.ctx, ua.TimestampsToReturnBoth, opcua.NewMonitoredItemCreateRequestWithDefaults(ua.NewNumericNodeID(1, 77), ua.AttributeIDValue, 1))
			if err == nil && len(res.Results) == 1 {
				r.mu.Lock()
				h.items = append(h.items, res.Results[0].MonitoredItemID)
				r.mu.Unlock()
			}
			return err
		})
	case "unmonitor":
		h := r.pick(a.Sub)
		if h == nil {
			r.cls["action-skipped(no-subscription-yet)"] = true
			return
		}
		r.launch(idx, fmt.Sprintf("#%d Unmonitor(sub created as %d)", idx, h.id), a.WaitMs, func() error {
			r.mu.Lock()
			id := uint32(1)
			if len(h.items) > 0 {
				id = h.items[len(h.items)-1]
			}
			r.mu.Unlock()
			_, err := h.s.Unmonitor(r.ctx, id)
			return err
		})
	case "drop":
		r.settle()
		r.w.note("env: drop all connections")
		r.w.srv.DropConns()
		r.disturb()
		r.cls["env:drop"] = true
		time.Sleep(time.Duration(a.WaitMs) * time.Millisecond)
	case "withhold":
		r.w.mu.Lock()
		out := r.w.outstanding() != nil
		r.w.logf("env: withhold for %d ms (publish outstanding: %v)", a.WaitMs, out)
		r.w.mu.Unlock()
		if out && a.WaitMs > int(requestTimeout/time.Millisecond) {
			r.cls["env:withhold-beyond-publish-timeout"] = true
		} else {
			r.cls["env:withhold"] = true
		}
		time.Sleep(time.Duration(a.WaitMs) * time.Millisecond)
	case "release", "fail":
		if a.Op == "fail" && ua.StatusCode(a.Status) != ua.StatusBadNoSubscription {
			r.settle()
		}
		var p *pubReq
		for i := 0; i < 30 && p == nil; i++ {
			r.w.mu.Lock()
			p = r.w.outstanding()
			if p != nil {
				if a.Op == "fail" {
					r.w.answer(p, "fault", ua.StatusCode(a.Status))
				} else if a.Data {
					r.w.answer(p, "data", 0)
				} else {
					r.w.answer(p, "keepalive", 0)
				}
			}
			r.w.mu.Unlock()
			if p == nil {
				time.Sleep(5 * time.Millisecond)
			}
		}
		if p == nil {
			r.cls["env:"+a.Op+"-skipped(no-publish-outstanding)"] = true
			return
		}
		if a.Op == "fail" {
			r.cls["env:fail:"+ua.StatusCode(a.Status).Error()] = true
			if ua.StatusCode(a.Status) != ua.StatusBadNoSubscription {
				r.disturb()
			}
		} else {
			r.cls["env:release"] = true
		}
		// let the client act on it before the next action
		time.Sleep(3 * time.Millisecond)
	}
}

// ---------------------------------------------------------------------------
// goroutine dumps

type gor struct {
	id     int
	state  string
	frames []string // "func file:line"
}

var reHead = regexp.MustCompile(`^goroutine (\d+) \[([^\],]+)`)
var reGor = regexp.MustCompile(`goroutine \d+`)

func dumpAll() []gor {
	buf := make([]byte, 1<<20)
	for {
		n := runtime.Stack(buf, true)
		if n < len(buf) {
			buf = buf[:n]
			break
		}
		buf = make([]byte, 2*len(buf))
	}
	var out []gor
	for _, blk := range strings.Split(string(buf), "\n\n") {
		lines := strings.Split(strings.TrimSpace(blk), "\n")
		if len(lines) == 0 {
			continue
		}
		m := reHead.FindStringSubmatch(lines[0])
		if m == nil {
			continue
		}
		id, _ := strconv.Atoi(m[1])
		g := gor{id: id, state: m[2]}
		for i := 1; i+1 < len(lines); i += 2 {
			fn := strings.TrimSpace(lines[i])
			if strings.HasPrefix(fn, "created by ") {
				break
			}
			if k := strings.LastIndex(fn, "("); k > 0 {
				fn = fn[:k]
			}
			loc := strings.TrimSpace(lines[i+1])
			if k := strings.Index(loc, " +0x"); k > 0 {
				loc = loc[:k]
			}
			if k := strings.LastIndex(loc, "/"); k >= 0 {
				loc = loc[k+1:]
			}
			g.frames = append(g.frames, fn+" "+loc)
		}
		out = append(out, g)
	}
	return out
}

func (g gor) has(sub string) bool {
	for _, f := range g.frames {
		if strings.Contains(f, sub) {
			return true
		}
	}
	return false
}

// gopcuaFrames returns the frames of the goroutine inside gopcua's root package (innermost first).
func (g gor) gopcuaFrames() []string {
	var out []string
	for _, f := range g.frames {
		if strings.HasPrefix(f, "github.com/gopcua/opcua.") {
			out = append(out, strings.TrimPrefix(f, "github.com/gopcua/opcua."))
		}
	}
	return out
}

func (g gor) sig() string {
	fs := g.gopcuaFrames()
	if len(fs) > 3 {
		fs = fs[:3]
	}
	return fmt.Sprintf("goroutine %d [%s] %s", g.id, g.state, strings.Join(fs, " <- "))
}

// parked takes two goroutine dumps 1 s apart, restricted to goroutines that did
// not exist before the case started. It returns the signatures of the
// goroutines selected by show that are identical in both dumps, and whether any
// goroutine selected by must (the ones the verdict is about) is not parked at
// the same frames in both dumps (or there is none although one is required).
func parked(base map[int]bool, must, show func(gor) bool, required bool) (same []string, changed bool) {
	take := func() map[int]gor {
		m := map[int]gor{}
		for _, g := range dumpAll() {
			if !base[g.id] && (must(g) || show(g)) {
				m[g.id] = g
			}
		}
		return m
	}
	d1 := take()
	time.Sleep(time.Second)
	d2 := take()
	nmust := 0
	for id, g := range d1 {
		g2, ok := d2[id]
		if ok && g2.sig() == g.sig() {
			same = append(same, g.sig())
		}
		if must(g) {
			nmust++
			if !ok || g2.sig() != g.sig() || g.state == "running" || g.state == "runnable" {
				changed = true
			}
		}
	}
	for id, g := range d2 {
		if _, ok := d1[id]; !ok && must(g) {
			changed = true
		}
	}
	if required && nmust == 0 {
		changed = true
	}
	sort.Strings(same)
	return same, changed
}

// allGopcua lists every goroutine of the case with a frame inside gopcua.
func allGopcua(base map[int]bool) []string {
	var out []string
	for _, g := range dumpAll() {
		if base[g.id] {
			continue
		}
		var fs []string
		for _, f := range g.frames {
			if strings.HasPrefix(f, "github.com/gopcua/opcua") {
				fs = append(fs, strings.TrimPrefix(f, "github.com/gopcua/opcua"))
			}
		}
		if len(fs) == 0 {
			continue
		}
		if len(fs) > 4 {
			fs = fs[:4]
		}
		out = append(out, fmt.Sprintf("goroutine %d [%s] %s", g.id, g.state, strings.Join(fs, " <- ")))
	}
	sort.Strings(out)
	return out
}

// ---------------------------------------------------------------------------
// execution

// errSetup: the case could not be set up (loaded machine); it is discarded.
var errSetup = errors.New("set-up failed")

type result struct {
	verdict string
	known   string // signature of the known finding the failure matches ("" = none)
	starved bool
	nontriv bool
	classes []string
	obs     Observed
}

func execute(c Case) (res result, err error) {
	base := map[int]bool{}
	for _, g := range dumpAll() {
		base[g.id] = true
	}
	hb := starve.Begin()
	w := &world{c: c, live: map[uint32]bool{}, seq: map[uint32]uint32{}, tokConn: map[string]int{}, t0: time.Now(), open: map[int]bool{}}
	srv, e := script.Start(script.Options{Handle: w.handle, OnConn: w.onConn, OnClose: w.onClose})
	if e != nil {
		return res, fmt.Errorf("script server: %v", e)
	}
	w.srv = srv
	defer srv.Close()
	ctx, cancel := context.WithCancel(context.Background())
	defer cancel()
	r := &run{c: c, disturbed: -1, w: w, ctx: ctx, cls: map[string]bool{}, nch: make(chan *opcua.PublishNotificationData, 256)}
	if c.ReaderCalls {
		r.nch = make(chan *opcua.PublishNotificationData)
	}
	cl, e := opcua.NewClient(srv.URL, opcua.SecurityMode(ua.MessageSecurityModeNone), opcua.RequestTimeout(requestTimeout),
		opcua.AutoReconnect(c.AutoReconnect), opcua.ReconnectInterval(50*time.Millisecond), opcua.StateChangedFunc(r.onState))
	if e != nil {
		return res, e
	}
	r.cl = cl
	// with a request timeout of 500 ms the connection set-up itself can time
	// out on a loaded machine: that is not what this property is about
	for attempt := 0; ; attempt++ {
		cctx, ccancel := context.WithTimeout(ctx, 10*time.Second)
		e = cl.Connect(cctx)
		ccancel()
		if e == nil {
			break
		}
		if attempt >= 8 {
			return res, fmt.Errorf("%w: connect: %v", errSetup, e)
		}
		time.Sleep(time.Duration(100*(attempt+1)) * time.Millisecond)
		cl, e = opcua.NewClient(srv.URL, opcua.SecurityMode(ua.MessageSecurityModeNone), opcua.RequestTimeout(requestTimeout),
			opcua.AutoReconnect(c.AutoReconnect), opcua.ReconnectInterval(50*time.Millisecond), opcua.StateChangedFunc(r.onState))
		if e != nil {
			return res, e
		}
		r.cl = cl
		r.stMu.Lock()
		r.states = nil
		r.stMu.Unlock()
	}
	go func() {
		// the application: reads every notification at once
		for {
			select {
			case <-r.nch:
				if c.ReaderCalls {
					_ = r.cl.SubscriptionIDs()
				}
			case <-ctx.Done():
				return
			}
		}
	}()
	defer func() {
		// best effort: release the client's goroutines
		cancel()
		done := make(chan struct{})
		go func() {
			defer close(done)
			defer func() { _ = recover() }()
			cx, cc := context.WithTimeout(context.Background(), 2*time.Second)
			defer cc()
			cl.Close(cx)
		}()
		select {
		case <-done:
		case <-time.After(3 * time.Second):
		}
	}()

	stoppedEarly := false
	for i, a := range c.Actions {
		if !c.AutoReconnect && cl.State() == opcua.Closed && os.Getenv("VERIF_C27_DEV_NO_CUT") == "" {
			// the connection monitor has stopped and told the application "Closed":
			// a caller is not expected to go on using the client (KF-C21-1 covers
			// the calls that are made nevertheless)
			stoppedEarly = true
			r.cls["script-cut-short(client-reported-Closed,AutoReconnect=false)"] = true
			break
		}
		r.do(i, a)
	}

	// ---- the server answers everything that is outstanding and from now on
	w.mu.Lock()
	w.auto = true
	w.autoFrom = w.arrivals
	w.logf("env: server answers everything from now on")
	for _, p := range w.pubs {
		w.answer(p, "keepalive", 0)
	}
	w.mu.Unlock()

	finish := func(verdict string, parkedSigs []string) {
		if strings.HasPrefix(verdict, "no PublishRequest") && !c.AutoReconnect && cl.State() == opcua.Closed {
			// the last fault stopped the connection monitor after the script had
			// ended: there is no publish loop any more (KF-C21-1's root cause)
			r.cls["progress-clauses-skipped(client-Closed,AutoReconnect=false)"] = true
			return
		}
		w.mu.Lock()
		nopen := len(w.open)
		w.mu.Unlock()
		if nopen == 0 && cl.State() == opcua.Connected && strings.HasPrefix(verdict, "no PublishRequest") {
			verdict += "; the client reports Connected but every connection it made is closed"
			res.known = kfDeadConn
		}
		res.verdict = verdict
		res.obs.Verdict = verdict
		res.obs.Parked = parkedSigs
		res.obs.State = fmt.Sprint(cl.State())
		res.obs.All = allGopcua(base)
		idsDone := make(chan []uint32, 1)
		go func() { idsDone <- cl.SubscriptionIDs() }() // may block if subMux is part of the deadlock
		select {
		case ids := <-idsDone:
			sort.Slice(ids, func(i, j int) bool { return ids[i] < ids[j] })
			res.obs.Subs = ids
		case <-time.After(time.Second):
		}
		r.mu.Lock()
		for _, cc := range r.all {
			select {
			case <-cc.done:
				res.obs.Calls = append(res.obs.Calls, fmt.Sprintf("%s: returned after %v: %v", cc.desc, cc.dur.Round(time.Millisecond), cc.err))
			default:
				res.obs.Calls = append(res.obs.Calls, fmt.Sprintf("%s: NOT RETURNED after %v", cc.desc, time.Since(cc.start).Round(time.Millisecond)))
			}
		}
		r.mu.Unlock()
		w.mu.Lock()
		ev := w.events
		if len(ev) > 120 {
			ev = ev[len(ev)-120:]
		}
		res.obs.Events = append([]string(nil), ev...)
		w.mu.Unlock()
	}
	monitorStopped := func() bool { return !c.AutoReconnect && cl.State() == opcua.Closed }
	isAPI := func(g gor) bool { return g.has("c27.apiCallGoroutine") }
	isPub := func(g gor) bool { return g.has("opcua.(*Client).monitorSubscriptions") }
	isLoop := func(g gor) bool {
		return g.has("opcua.(*Client).monitorSubscriptions") || g.has("opcua.(*Client).monitor ") || g.has("c27.apiCallGoroutine") || g.has("opcua.(*Client).SubscriptionIDs")
	}
	atSignals := func(sigs []string) bool {
		for _, s := range sigs {
			if !strings.Contains(s, "[chan send]") && !strings.Contains(s, "[select]") {
				continue
			}
			if strings.Contains(s, "(*Client).Subscribe ") || strings.Contains(s, "(*Client).pauseSubscriptions ") || strings.Contains(s, "(*Client).resumeSubscriptions ") {
				return true
			}
		}
		return false
	}

	defer func() {
		if os.Getenv("VERIF_C27_DEV_TRACE") != "" {
			w.mu.Lock()
			fmt.Println(strings.Join(w.events, "\n"))
			w.mu.Unlock()
			for _, g := range dumpAll() {
				if !base[g.id] && len(g.gopcuaFrames()) > 0 {
					fmt.Println("   ", g.sig())
				}
			}
		}
		res.nontriv = r.nt
		r.cls[fmt.Sprintf("AutoReconnect=%v", c.AutoReconnect)] = true
		if c.ReaderCalls {
			r.cls["notification-reader-calls-SubscriptionIDs(unbuffered-channel)"] = true
		}
		r.cls[fmt.Sprintf("actions=%d-%d", len(c.Actions)/4*4, len(c.Actions)/4*4+3)] = true
		if w.faults > 0 {
			r.cls["some-publish-failed"] = true
		}
		for k := range r.cls {
			res.classes = append(res.classes, k)
		}
		sort.Strings(res.classes)
		if res.verdict != "" && hb.Settle() > 2*time.Second {
			res.starved = true
		}
	}()

	// (1) every API call returns
	waitAll := func(bound time.Duration) bool {
		deadline := time.After(bound)
		r.mu.Lock()
		calls := append([]*call(nil), r.all...)
		r.mu.Unlock()
		for _, cc := range calls {
			select {
			case <-cc.done:
			case <-deadline:
				return false
			}
		}
		return true
	}
	if !waitAll(hangBound) {
		all, changed := parked(base, isAPI, isLoop, true)
		if changed {
			// not parked at the same frames: no verdict
			res.starved = true
			finish("api calls did not return within the bound but are not parked at the same frames in two dumps", all)
			return res, nil
		}
		if monitorStopped() && atSignals(all) {
			res.known = kfMonitorStopped
		}
		r.mu.Lock()
		nblocked := 0
		for _, cc := range r.all {
			select {
			case <-cc.done:
			default:
				nblocked++
			}
		}
		r.mu.Unlock()
		finish(fmt.Sprintf("%d API call(s) blocked for more than %v after the server answered everything (same frames in two goroutine dumps 1 s apart)", nblocked, hangBound), all)
		return res, nil
	}
	r.cls["all-api-calls-returned"] = true

	if monitorStopped() || stoppedEarly {
		// the client told the application that it is closed; there is no publish
		// loop to make progress any more (KF-C21-1's root cause)
		r.cls["progress-clauses-skipped(client-Closed,AutoReconnect=false)"] = true
		return res, nil
	}

	arrivalsNow := func() int { w.mu.Lock(); defer w.mu.Unlock(); return w.arrivals }
	waitArrival := func(from int, bound time.Duration) bool {
		deadline := time.Now().Add(bound)
		for time.Now().Before(deadline) {
			if arrivalsNow() > from {
				return true
			}
			time.Sleep(10 * time.Millisecond)
		}
		return false
	}

	// (2) registered on both sides -> publish requests keep coming
	common := func() []uint32 {
		ids := cl.SubscriptionIDs()
		w.mu.Lock()
		defer w.mu.Unlock()
		var out []uint32
		for _, id := range ids {
			if w.live[id] {
				out = append(out, id)
			}
		}
		sort.Slice(out, func(i, j int) bool { return out[i] < out[j] })
		return out
	}
	w.mu.Lock()
	lied := w.lied
	w.mu.Unlock()
	if lied {
		r.cls["server-said-BadNoSubscription-while-it-had-subscriptions(clause-2-skipped)"] = true
	} else if reg := common(); len(reg) > 0 {
		r.cls["clause-2-checked(subscriptions-registered-at-the-end)"] = true
		// a reconnect may still be in progress: wait for Connected first
		deadline := time.Now().Add(progressBound)
		for cl.State() != opcua.Connected && time.Now().Before(deadline) {
			time.Sleep(10 * time.Millisecond)
		}
		from := arrivalsNow()
		if !waitArrival(from, progressBound) {
			if reg2 := common(); len(reg2) > 0 && cl.State() == opcua.Connected {
				sigs, changed := parked(base, isPub, isLoop, false)
				if changed {
					res.starved = true
				}
				finish(fmt.Sprintf("no PublishRequest for %v although subscriptions %v are registered at the client and alive at the server (state %v, server answers every publish)", progressBound, reg2, cl.State()), sigs)
				return res, nil
			}
			r.cls["clause-2-dropped(subscriptions-gone-or-not-connected)"] = true
		}
	} else {
		r.cls["no-subscription-registered-at-the-end"] = true
	}

	// (3) a fresh Subscribe returns and the publish loop sends a request
	from := arrivalsNow()
	r.subscribe(len(c.Actions), 0)
	if !waitAll(hangBound) {
		sigs, changed := parked(base, isAPI, isLoop, true)
		if changed {
			res.starved = true
		}
		finish(fmt.Sprintf("a fresh Subscribe after the script did not return within %v", hangBound), sigs)
		return res, nil
	}
	r.mu.Lock()
	last := r.all[len(r.all)-1]
	r.mu.Unlock()
	if last.err != nil {
		// e.g. a reconnect in progress: try until it is over
		deadline := time.Now().Add(progressBound)
		for last.err != nil && time.Now().Before(deadline) {
			if monitorStopped() {
				// the last fault of the script stopped the connection monitor a moment ago
				r.cls["progress-clauses-skipped(client-Closed,AutoReconnect=false)"] = true
				return res, nil
			}
			time.Sleep(100 * time.Millisecond)
			r.subscribe(len(c.Actions), 0)
			if !waitAll(hangBound) {
				sigs, changed := parked(base, isAPI, isLoop, true)
				if changed {
					res.starved = true
				}
				finish(fmt.Sprintf("a fresh Subscribe after the script did not return within %v", hangBound), sigs)
				return res, nil
			}
			r.mu.Lock()
			last = r.all[len(r.all)-1]
			r.mu.Unlock()
		}
		if last.err != nil {
			r.cls["fresh-subscribe-kept-failing(no-verdict)"] = true
			if os.Getenv("VERIF_C27_DEV_SURVEY") != "" {
				cj, _ := json.Marshal(c)
				w.mu.Lock()
				fmt.Printf("NOVERDICT fresh Subscribe kept failing: %v; state %v; open conns %d\n  case: %s\n  goroutines: %s\n  events: %s\n", last.err, cl.State(), len(w.open), cj,
					strings.Join(allGopcua(base), "\n    "), strings.Join(w.events, "\n    "))
				w.mu.Unlock()
			}
			return res, nil
		}
		r.cls["fresh-subscribe-succeeded-after-retries"] = true
	}
	if !waitArrival(from, progressBound) {
		sigs, changed := parked(base, isPub, isLoop, false)
		if changed {
			res.starved = true
		}
		finish(fmt.Sprintf("no PublishRequest within %v after a fresh Subscribe returned successfully (state %v)", progressBound, cl.State()), sigs)
		return res, nil
	}
	r.cls["publish-after-fresh-subscribe"] = true
	return res, nil
}

// decide applies the confirmation rule: a failure counts only if two
// re-executions fail too.
func decide(c *Case, logf func(string, ...any)) (msg string, res result, err error) {
	res, err = execute(*c)
	if err != nil || res.verdict == "" {
		return "", res, err
	}
	if os.Getenv("VERIF_C27_DEV_SURVEY") != "" {
		// development only: list failures without confirmation and go on
		cj, _ := json.Marshal(c)
		fmt.Printf("SURVEY %s\n  parked: %s\n  case: %s\n", res.verdict, reGor.ReplaceAllString(strings.Join(res.obs.Parked, " | "), "g"), cj)
		return "", res, nil
	}
	first := res
	inconclusive := func(why string) (string, result, error) {
		cj, _ := json.Marshal(c)
		oj, _ := json.Marshal(first.obs)
		fmt.Printf("C27 INCONCLUSIVE (%s): %s\n  observed: %s\n  case: %s\n", why, first.verdict, oj, cj)
		rec.Inconclusive()
		first.classes = append(first.classes, "inconclusive("+why+")")
		return "", first, nil
	}
	if res.starved {
		return inconclusive("dumps-differ-or-process-starved")
	}
	obs := res.obs
	for i := 0; i < 2; i++ {
		r2, e2 := execute(*c)
		if e2 != nil {
			logf("confirmation run %d: %v", i+1, e2)
			return inconclusive("confirmation-run-failed-to-set-up")
		}
		obs.Others = append(obs.Others, r2.verdict)
		if r2.verdict == "" || r2.starved {
			return inconclusive("confirmation-not-3/3")
		}
		if r2.known != first.known {
			first.known = ""
		}
	}
	if first.known != "" && rec.Known(first.known) {
		first.classes = append(first.classes, "excluded(known-finding:"+first.known+")")
		return "", first, nil
	}
	c.Observed = &obs
	return first.verdict + " (confirmed 3/3)", first, nil
}

func TestDeadlock(t *testing.T) {
	rec.Assume("trusted base: pkg/script (gopcua's server-side channel API) as the scripted server; runtime.Stack as the observer of parked goroutines; the application reads its notification channel promptly and passes contexts that never expire")
	rec.Assume("publish timeout 500 ms (RevisedPublishingInterval 100 ms x RevisedMaxKeepAliveCount 5 = RequestTimeout); blocked-forever verdicts: 30 s bound after the server answered everything, identical parked frames in two dumps 1 s apart, confirmed 3/3")
	rec.Assume("with AutoReconnect(false) the script ends once the client reports Closed (a caller told Closed does not go on using the client); calls already in flight are still required to return")
	rapid.Check(t, func(rt *rapid.T) {
		c := genCase(rt)
		rec.Journal("TestDeadlock", c)
		msg, res, err := decide(&c, func(f string, a ...any) { rt.Logf(f, a...) })
		rec.JournalDone("TestDeadlock")
		if errors.Is(err, errSetup) {
			rec.Class("case-discarded(set-up-failed-on-a-loaded-machine)")
			rt.Skip(err.Error())
		}
		if err != nil {
			t.Fatalf("infrastructure failure (not a violation): %v", err)
		}
		cc := c
		cc.Observed = nil
		b, _ := json.Marshal(cc)
		rec.Case(res.nontriv, ev.Hash(b), res.classes...)
		for _, k := range res.classes {
			if strings.HasPrefix(k, "next-fault-deferred") {
				rec.Excluded(kfDeadConnID)
			}
		}
		if res.nontriv && rec.WantSample() {
			rec.Sample(cc)
		}
		if msg != "" {
			rec.Fail(rt, "TestDeadlock", c, "%s", msg)
		}
	})
}

// TestReplay re-executes a saved script without rapid.
func TestReplay(t *testing.T) {
	rp, err := ev.LoadReplay()
	if err != nil {
		t.Fatal(err)
	}
	if rp == nil {
		t.Skip("no VERIF_REPLAY")
	}
	var c Case
	if err := json.Unmarshal(rp.Case, &c); err != nil {
		t.Fatal(err)
	}
	c.Observed = nil
	fmt.Println("REPLAYED structured")
	msg, _, err := decide(&c, func(f string, a ...any) { fmt.Printf(f+"\n", a...) })
	if err != nil {
		t.Skipf("infrastructure failure (not a violation): %v", err)
	}
	if msg != "" {
		b, _ := json.MarshalIndent(c.Observed, "", " ")
		t.Fatalf("property C27 violated: %s\n%s", msg, b)
	}
	fmt.Println("re-execution held")
}
