package c10

// Development aid, NOT part of the C10 plan (cmd/vdriver/plan_c10.go does not
// run it): untampered gopcua<->gopcua traffic with multi-chunk messages, token
// renewals and a sequence number wrap-around on both sides must be delivered
// completely. Used to make sure that a proposed monotonic check of received
// sequence numbers (fixes/C10-*.diff) does not reject legitimate traffic.
//
//	go test -tags verif -run TestSanityGenuineTraffic ./props/c10

import (
	"context"
	"math"
	"sync"
	"testing"
	"time"

	"github.com/gopcua/opcua/ua"

	"verif/pkg/chanpair"
	"verif/pkg/mitm"
)

func TestSanityGenuineTraffic(t *testing.T) {
	for _, short := range shorts {
		for _, mode := range []string{"Sign", "SignAndEncrypt"} {
			for _, nearWrap := range []bool{false, true} {
				pol := mitm.PolicyByShort(short)
				ck, sk := mitm.Keys(pol)
				p, err := chanpair.New(chanpair.Options{Policy: pol, Mode: mitm.Mode(mode), ClientKey: ck, ServerKey: sk,
					ClientACK: mitm.ACK(8192), ServerACK: mitm.ACK(8192), Tap: true, RequestTimeout: 10 * time.Second})
				if err != nil {
					t.Fatal(err)
				}
				if nearWrap {
					// both senders wrap within the next few chunks
					if !p.Client.VerifSetSequenceNumber(math.MaxUint32-1023-4) || !p.Server.VerifSetSequenceNumber(math.MaxUint32-1023-6) {
						t.Fatal("cannot set sequence numbers")
					}
				}
				const n = 14
				pad := func(i int) int {
					if i%3 == 1 {
						return 20000 // 3 chunks
					}
					return i
				}
				var wg sync.WaitGroup
				wg.Add(1)
				go func() { // server application
					defer wg.Done()
					for served := 0; served < n; {
						r := mitm.Receive(p.Server, 10*time.Second)
						if r.TimedOut || r.Panic != "" || r.Msg.Err != nil {
							t.Errorf("%s %s wrap=%v: server Receive: %+v", short, mode, nearWrap, r)
							return
						}
						req := r.Msg.Request()
						if req == nil {
							continue // renewal
						}
						text, _ := mitm.RequestText(req)
						tag, pd, intact := mitm.ParseText(text)
						if !intact || tag != served || pd != pad(tag) {
							t.Errorf("%s %s wrap=%v: request %d arrived as tag %d intact=%v", short, mode, nearWrap, served, tag, intact)
							return
						}
						if err := p.Server.SendResponseWithContext(context.Background(), r.Msg.RequestID, mitm.Response(req.Header().RequestHandle, tag, pad(tag))); err != nil {
							t.Errorf("send response: %v", err)
							return
						}
						served++
					}
				}()
				for i := 0; i < n; i++ {
					got := ""
					err := p.Client.SendRequest(context.Background(), mitm.Request(i, pad(i)), nil, func(r ua.Response) error {
						got, _ = mitm.ResponseText(r)
						return nil
					})
					tag, pd, intact := mitm.ParseText(got)
					if err != nil || !intact || tag != i || pd != pad(i) {
						t.Fatalf("%s %s wrap=%v: request %d: err=%v tag=%d intact=%v", short, mode, nearWrap, i, err, tag, intact)
					}
					if i == 4 || i == 9 {
						if err := p.Client.Renew(context.Background()); err != nil {
							t.Fatalf("%s %s wrap=%v: renew after %d: %v", short, mode, nearWrap, i, err)
						}
					}
				}
				wg.Wait()
				closePair(p)
			}
		}
	}
}
