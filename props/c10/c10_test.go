// Package c10 decides property C10: a replayed secured chunk is never delivered
// twice; sequence numbers received on a channel must strictly increase.
//
// Fixture: gopcua client channel <-> gopcua server channel over loopback with a
// frame-aware man-in-the-middle (pkg/chanpair + pkg/netx.Tap). The sender
// produces a history of 2-12 tagged messages (single / multi chunk), optionally
// with token renewals in between. An adversary script runs inside the tap: it
// forwards every chunk and additionally re-sends verbatim copies of earlier
// chunks (one chunk, a whole message, an immediate duplicate) at later
// positions, or swaps two adjacent messages / two adjacent chunks. The tap logs
// what it forwarded in which order.
//
// Oracle (history invariant, independent of uasc): the sender numbers its chunks
// in the order it writes them, so a forwarded chunk is legitimate iff its
// position in the sender's order is greater than that of every chunk forwarded
// before it; every other forwarded chunk is a replayed or re-ordered one.
//   - server kind (the harness calls Receive itself and, like the server's
//     channel broker, stops at the first error): before the first error only
//     messages whose chunks were all forwarded before the first illegitimate
//     chunk may be returned, each at most once, with the content that was sent.
//   - client kind (uasc's dispatcher goroutine calls Receive and goes on after
//     errors): a response reaches its handler only if every one of its chunks
//     had a legitimate arrival, at most once; and when a sentinel response sent
//     after everything else reaches its handler, every illegitimate chunk has
//     been consumed by some Receive, each of which must have returned an error,
//     so the error channel must hold at least that many errors.
package c10

import (
	"context"
	"encoding/binary"
	"encoding/json"
	"fmt"
	"os"
	"strings"
	"sync"
	"sync/atomic"
	"testing"
	"time"

	"github.com/gopcua/opcua/ua"
	"github.com/gopcua/opcua/uasc"
	"pgregory.net/rapid"

	"verif/pkg/chanpair"
	"verif/pkg/ev"
	"verif/pkg/mitm"
	"verif/pkg/netx"
)

func TestMain(m *testing.M) { ev.Main(m) }

var rec = ev.For("C10", "gopcua client<->server channel pair per case (5 secured policies x Sign/SignAndEncrypt x receiving kind server/client), history of 2-12 tagged messages (single/multi chunk, 0-2 token renewals in between), adversary script of 1-4 operations executed in a MITM tap (re-send one earlier chunk / a whole earlier message after a later message or right after a token renewal, duplicate a chunk immediately, swap two adjacent messages, swap two adjacent chunks); in a third of the cases the sender's numbering jumps forward 1-3 times (steps of 2^16 ... 2^31-70000, each shorter than 2^31: long-lived channel / gaps), so that a replayed chunk can lie more than 2^31 behind; in a sixth of the cases the sender climbs to its wrap-around point (1.4e9, 2.8e9, 4294966271-k) and wraps, so that chunks from before the wrap can be replayed after it; non-trivial = at least one replayed or re-ordered chunk was forwarded to the receiver after chunks it had accepted; distinct by hash of the case")

// ---------------------------------------------------------------------------
// case

// Msg is one message of the history; Pad sizes its tagged payload.
type Msg struct {
	Pad int `json:"pad"`
}

// Op is one adversary operation. Selectors are reduced modulo the history size.
type Op struct {
	Kind  string `json:"kind"`  // replay-msg replay-chunk replay-after-renew dup-chunk swap-msg swap-chunk
	Src   int    `json:"src"`   // selector of the source message
	Chunk int    `json:"chunk"` // selector of the chunk inside the source message
	At    int    `json:"at"`    // replay-*: copies are sent after message src + (At mod (n-src))
}

// Case is one executed case.
type Case struct {
	Policy string `json:"policy"`
	Mode   string `json:"mode"`
	Kind   string `json:"kind"` // server | client (the receiving channel)
	Buf    int    `json:"buf"`
	Msgs   []Msg  `json:"msgs"`
	Renew  []int  `json:"renew"` // a token renewal follows message i (selector mod n-1)
	Ops    []Op   `json:"ops"`
	Jumps  []Jump `json:"jumps,omitempty"`
}

// Jump: after message After (selector mod n) the SENDER continues its
// numbering from To (hook VerifSetSequenceNumber). Values ascend, so the
// numbers the receiver sees still increase strictly: a long-lived channel, or
// a peer that leaves gaps, which the receiver tolerates by design.
type Jump struct {
	After int    `json:"after"`
	To    uint32 `json:"to"`
	First bool   `json:"before_first_message,omitempty"` // the jump happens before message 0 (After is ignored)
}

var jumpDeltas = []uint32{1 << 16, 1 << 24, 1 << 30, 1<<31 - 70000, 1<<31 - 70000}

type outcome struct {
	Infra      string
	Violation  string
	Nontrivial bool
	Classes    []string
	Note       string
}

const stepTimeout = 20 * time.Second // harness-only waits; expiring is never a verdict

// ---------------------------------------------------------------------------
// adversary script (runs in the tap)

type emitted struct {
	Orig  int  // position of the chunk in the sender's order (0,1,2,...; OPN chunks count)
	Msg   int  // message index, -1 for OPN chunks
	Chunk int  // chunk index inside the message
	Copy  bool // a re-sent copy or a delayed chunk
}

type stored struct {
	orig int
	data []byte
}

type script struct {
	mu  sync.Mutex
	dir netx.Dir
	on  bool
	n   int // scripted messages

	// resolved operations
	replays   []resolved // replay-msg / replay-chunk
	dups      []resolved // dup-chunk
	swapMsg   int        // message a (swapped with a+1), -1 none
	swapChunk [2]int     // message, chunk j (swapped with j+1), {-1,-1} none

	// state
	orig      int
	msg, chk  int
	store     map[int][]stored // message -> chunks seen
	heldMsg   []stored
	heldChunk *stored
	heldIdx   int
	log       []emitted
	seqs      []uint32 // Sign mode: sequence numbers of the sender's MSG chunks in sender order
	plain     bool
}

type resolved struct {
	src, chunk, at int
	whole          bool
	afterOPN       bool // copies follow the first renewal (OPN chunk) that comes after message src
	fired          bool
}

func mod(a, n int) int {
	if n <= 0 {
		return 0
	}
	a %= n
	if a < 0 {
		a += n
	}
	return a
}

func newScript(c Case) *script {
	s := &script{dir: netx.C2S, n: len(c.Msgs), swapMsg: -1, swapChunk: [2]int{-1, -1}, store: map[int][]stored{}, plain: c.Mode == "Sign"}
	if c.Kind == "client" {
		s.dir = netx.S2C
	}
	n := s.n
	for _, op := range c.Ops {
		src := mod(op.Src, n)
		switch op.Kind {
		case "replay-msg", "replay-chunk":
			s.replays = append(s.replays, resolved{src: src, chunk: op.Chunk, at: src + mod(op.At, n-src), whole: op.Kind == "replay-msg"})
		case "replay-after-renew":
			s.replays = append(s.replays, resolved{src: src, at: -1, whole: true, afterOPN: true})
		case "dup-chunk":
			s.dups = append(s.dups, resolved{src: src, chunk: mod(op.Chunk, 3)})
		case "swap-msg":
			if s.swapMsg < 0 && n >= 2 {
				s.swapMsg = mod(op.Src, n-1)
			}
		case "swap-chunk":
			if s.swapChunk[0] < 0 {
				s.swapChunk = [2]int{src, mod(op.Chunk, 2)}
			}
		}
	}
	return s
}

func (s *script) enable() { s.mu.Lock(); s.on = true; s.mu.Unlock() }

func (s *script) hook(dir netx.Dir, conn int, f []byte) [][]byte {
	s.mu.Lock()
	defer s.mu.Unlock()
	if !s.on || dir != s.dir || len(f) < 12 {
		return [][]byte{f}
	}
	if !mitm.IsMSG(f) || s.msg >= s.n+1 {
		// OPN of a renewal (or anything else): forwarded untouched, but it has
		// its place in the sender's numbering
		s.log = append(s.log, emitted{Orig: s.orig, Msg: -1})
		s.orig++
		out := [][]byte{f}
		if !mitm.IsMSG(f) {
			for i := range s.replays {
				r := &s.replays[i]
				if !r.afterOPN || r.fired || r.src >= s.msg { // source message must be complete
					continue
				}
				r.fired = true
				for k, x := range s.store[r.src] {
					out = append(out, x.data)
					s.log = append(s.log, emitted{Orig: x.orig, Msg: r.src, Chunk: k, Copy: true})
				}
			}
		}
		return out
	}
	me := stored{orig: s.orig, data: mitm.Clone(f)}
	s.orig++
	m, j, final := s.msg, s.chk, f[3] != 'C'
	if s.plain && len(f) >= 20 {
		s.seqs = append(s.seqs, binary.LittleEndian.Uint32(f[16:]))
	}
	s.store[m] = append(s.store[m], me)
	var out [][]byte
	emit := func(x stored, msg, chunk int, cp bool) {
		out = append(out, x.data)
		s.log = append(s.log, emitted{Orig: x.orig, Msg: msg, Chunk: chunk, Copy: cp})
	}
	sentinel := m >= s.n
	switch {
	case !sentinel && m == s.swapMsg:
		s.heldMsg = append(s.heldMsg, me)
	case !sentinel && m == s.swapChunk[0] && j == s.swapChunk[1] && !final:
		s.heldChunk, s.heldIdx = &me, j
	default:
		emit(me, m, j, false)
		if !sentinel {
			for _, d := range s.dups {
				if d.src == m && (d.chunk == j || (final && j < d.chunk)) {
					emit(me, m, j, true)
				}
			}
		}
		if s.heldChunk != nil && m == s.swapChunk[0] && j == s.heldIdx+1 {
			emit(*s.heldChunk, m, s.heldIdx, true)
			s.heldChunk = nil
		}
	}
	if final {
		if !sentinel {
			if s.swapMsg >= 0 && m == s.swapMsg+1 {
				for i, h := range s.heldMsg {
					emit(h, s.swapMsg, i, true)
				}
				s.heldMsg = nil
			}
			for _, r := range s.replays {
				if r.at != m {
					continue
				}
				chunks := s.store[r.src]
				if r.whole {
					for i, x := range chunks {
						emit(x, r.src, i, true)
					}
				} else if len(chunks) > 0 {
					i := mod(r.chunk, len(chunks))
					emit(chunks[i], r.src, i, true)
				}
			}
		}
		s.msg++
		s.chk = 0
	} else {
		s.chk++
	}
	return out
}

// ---------------------------------------------------------------------------
// running a case

type delivery struct {
	Slot  int
	Text  string
	Shape bool
}

func closePair(p *chanpair.Pair) { mitm.HardClose(p) }

// jumpBoth moves both ends of one direction of the channel to the number `to`,
// as if the channel had been in use for that long: the sender continues its
// numbering from `to`, the receiver has accepted everything up to `to`. It only
// does so at a quiescent point (the receiver has consumed every chunk the
// sender has numbered so far); otherwise the jump is skipped, which is always
// sound - a jump is an acceleration of the harness, not part of the history.
func jumpBoth(sender, receiver *uasc.SecureChannel, to uint32) bool {
	deadline := time.Now().Add(400 * time.Millisecond)
	for {
		sent, _, ok1 := sender.VerifSequenceNumbers()
		_, recvd, ok2 := receiver.VerifSequenceNumbers()
		if ok1 && ok2 && sent == recvd {
			break
		}
		if time.Now().After(deadline) {
			return false
		}
		time.Sleep(2 * time.Millisecond)
	}
	if !sender.VerifSetSequenceNumber(to) {
		return false
	}
	receiver.VerifSetReceivedSequenceNumber(to)
	return true
}

func run(c Case) (o outcome) {
	if c.Kind != "server" && c.Kind != "client" {
		return outcome{Infra: "unknown kind"}
	}
	n := len(c.Msgs)
	if n < 1 {
		return outcome{Infra: "no messages"}
	}
	pol := mitm.PolicyByShort(c.Policy)
	if pol == "" {
		return outcome{Infra: "unknown policy"}
	}
	if c.Buf < 8192 {
		c.Buf = 8192
	}
	renewAfter := map[int]bool{}
	for _, r := range c.Renew {
		if n >= 2 {
			renewAfter[mod(r, n-1)] = true
		}
	}
	// Jumps ascend and none goes beyond the last number gopcua uses before it
	// wraps. Both ends are moved (jumpBoth): a receiver may treat a number that
	// is far ahead of the last one as a stale chunk from before a wrap-around.
	jumpAfter := map[int]uint32{}
	jumpFirst := uint32(0)
	wrapJumpAfter := -1 // message after which the sender is put right before its wrap-around
	{
		last := uint32(0)
		for _, j := range c.Jumps {
			if j.To > last+4096 && j.To <= 4294966271 {
				if j.First && last == 0 {
					jumpFirst = j.To
				} else if !j.First {
					jumpAfter[mod(j.After, n)] = j.To
					if j.To >= 4294966271-1024 {
						wrapJumpAfter = mod(j.After, n)
					}
				} else {
					continue
				}
				last = j.To
			}
		}
	}
	var jumpsDone, jumpsSkipped atomic.Int32
	if wrapJumpAfter >= 0 {
		// In a history that wraps around only copies of earlier chunks are
		// inserted. A swap across the wrap makes the receiver see the number 1
		// too early; it rejects THAT chunk (and then rightly accepts the
		// swapped-back one), which the order-based oracle cannot express.
		var ops []Op
		for _, op := range c.Ops {
			if op.Kind != "swap-msg" && op.Kind != "swap-chunk" {
				ops = append(ops, op)
			}
		}
		if len(ops) == 0 {
			ops = []Op{{Kind: "replay-msg", Src: 0, At: n - 1}}
		}
		c.Ops = ops
	}
	sc := newScript(c)
	ck, sk := mitm.Keys(pol)
	p, err := chanpair.New(chanpair.Options{Policy: pol, Mode: mitm.Mode(c.Mode), ClientKey: ck, ServerKey: sk,
		ClientACK: mitm.ACK(uint32(c.Buf)), ServerACK: mitm.ACK(uint32(c.Buf)), Hook: sc.hook, RequestTimeout: 60 * time.Second})
	if err != nil {
		return outcome{Infra: "chanpair: " + err.Error()}
	}
	defer closePair(p)
	ctx := context.Background()
	total := n
	if c.Kind == "client" {
		total = n + 1 // sentinel
	}
	padOf := func(tag int) int {
		if tag < n {
			return c.Msgs[tag].Pad
		}
		return 0
	}

	var (
		mu           sync.Mutex
		delivered    []delivery // in delivery order
		firstErr     string
		panicked     string
		sentinelSeen bool
		sentinelErrs []string
	)

	if c.Kind == "server" {
		done := make(chan string, 1) // infra message or ""
		go func() {
			for {
				r := mitm.Receive(p.Server, stepTimeout)
				if r.TimedOut {
					done <- "Receive did not return although the sender side was closed"
					return
				}
				mu.Lock()
				if r.Panic != "" {
					panicked = r.Panic
					mu.Unlock()
					p.ServerConn.Close()
					done <- ""
					return
				}
				m := r.Msg
				if m.Err != nil {
					firstErr = mitm.ErrClass(m.Err)
					mu.Unlock()
					p.ServerConn.Close() // like the channel broker: no Receive after an error; also ends a renewal in flight
					done <- ""
					return
				}
				if m.Request() == nil && m.Response() == nil {
					mu.Unlock()
					continue // OpenSecureChannel (renewal) handled inside Receive
				}
				d := delivery{Slot: -1}
				if req := m.Request(); req != nil {
					d.Text, d.Shape = mitm.RequestText(req)
				}
				delivered = append(delivered, d)
				mu.Unlock()
			}
		}()
		sc.enable()
		if jumpFirst != 0 && jumpBoth(p.Client, p.Server, jumpFirst) {
			jumpsDone.Add(1)
		}
		for i := 0; i < n; i++ {
			if err := p.Client.SendRequest(ctx, mitm.Request(i, padOf(i)), nil, nil); err != nil {
				break // the receiver already stopped
			}
			if to, ok := jumpAfter[i]; ok {
				// after one skipped jump (the receiver has stopped, or chunks are
				// held back by the adversary) the later ones are skipped as well
				if jumpsSkipped.Load() == 0 && jumpBoth(p.Client, p.Server, to) {
					jumpsDone.Add(1)
				} else {
					jumpsSkipped.Add(1)
				}
			}
			if renewAfter[i] {
				if err := p.Client.Renew(ctx); err != nil {
					break
				}
			}
		}
		p.ClientConn.Close() // FIN after the data: the receiver ends with EOF
		select {
		case infra := <-done:
			if infra != "" {
				return outcome{Infra: infra}
			}
		case <-time.After(2 * stepTimeout):
			return outcome{Infra: "receiver loop did not end"}
		}
	} else {
		served := make(chan int, total+4)
		if jumpFirst != 0 && jumpBoth(p.Server, p.Client, jumpFirst) {
			jumpsDone.Add(1)
		}
		go func() { // the application behind the server channel: answers every request
			for {
				r := mitm.Receive(p.Server, 3*stepTimeout)
				if r.TimedOut || r.Panic != "" || r.Msg == nil || r.Msg.Err != nil {
					served <- -1
					return
				}
				req := r.Msg.Request()
				if req == nil {
					continue // renewal
				}
				text, ok := mitm.RequestText(req)
				tag, _, intact := mitm.ParseText(text)
				if !ok || !intact || tag < 0 || tag >= total {
					served <- -1
					return
				}
				if err := p.Server.SendResponseWithContext(ctx, r.Msg.RequestID, mitm.Response(req.Header().RequestHandle, tag, padOf(tag))); err != nil {
					served <- -1
					return
				}
				if to, ok := jumpAfter[tag]; ok {
					if jumpsSkipped.Load() == 0 && jumpBoth(p.Server, p.Client, to) {
						jumpsDone.Add(1)
					} else {
						jumpsSkipped.Add(1)
					}
				}
				served <- tag
			}
		}()
		var wg sync.WaitGroup
		sentinelRet := make(chan struct{})
		sc.enable()
		for i := 0; i < total; i++ {
			i := i
			wg.Add(1)
			go func() {
				defer wg.Done()
				_ = p.Client.SendRequest(ctx, mitm.Request(i, 0), nil, func(r ua.Response) error {
					text, ok := mitm.ResponseText(r)
					mu.Lock()
					delivered = append(delivered, delivery{Slot: i, Text: text, Shape: ok})
					if i == n {
						// the dispatcher reports an error before it reads the next frame
						sentinelSeen = true
					drain:
						for {
							select {
							case e := <-p.ClientErr:
								sentinelErrs = append(sentinelErrs, mitm.ErrClass(e))
							default:
								break drain
							}
						}
					}
					mu.Unlock()
					return nil
				})
				if i == n {
					close(sentinelRet)
				}
			}()
			select {
			case tag := <-served:
				if tag != i {
					p.ServerConn.Close()
					wg.Wait()
					return outcome{Infra: fmt.Sprintf("untampered request %d was not served (got %d)", i, tag)}
				}
			case <-time.After(stepTimeout):
				p.ServerConn.Close()
				return outcome{Infra: "untampered request not served in time"}
			}
			if renewAfter[i] {
				if err := p.Client.Renew(ctx); err != nil {
					p.ServerConn.Close()
					wg.Wait()
					return outcome{Infra: "renewal (untampered) failed: " + err.Error()}
				}
			}
		}
		select { // observation only: closing early can hide a delivery, never create one
		case <-sentinelRet:
		case <-time.After(2 * time.Second):
			o.Classes = append(o.Classes, "sentinel=gave-up-waiting")
		}
		p.ServerConn.Close()
		fin := make(chan struct{})
		go func() { wg.Wait(); close(fin) }()
		select {
		case <-fin:
		case <-time.After(stepTimeout):
			return outcome{Infra: "pending requests did not return after the connection was closed"}
		}
	}

	// ---- judge the history
	sc.mu.Lock()
	log := append([]emitted(nil), sc.log...)
	seqs := append([]uint32(nil), sc.seqs...)
	sc.mu.Unlock()
	mu.Lock()
	defer mu.Unlock()

	// harness assumption: the sender numbers its chunks in the order it writes them
	for i := 1; i < len(seqs); i++ {
		if seqs[i] <= seqs[i-1] && !(seqs[i-1] >= 4294966271-1024 && seqs[i] < 1024) { // except the legitimate wrap-around
			return outcome{Infra: fmt.Sprintf("sender's own sequence numbers are not increasing (%d after %d): the oracle's premise does not hold (C11's business)", seqs[i], seqs[i-1])}
		}
	}

	legit := make([]bool, len(log))
	maxOrig, firstBad, nbad := -1, -1, 0
	for i, e := range log {
		legit[i] = e.Orig > maxOrig
		if legit[i] {
			maxOrig = e.Orig
		} else {
			nbad++
			if firstBad < 0 {
				firstBad = i
			}
		}
	}
	nchunks := map[int]int{} // chunks per message, from what the sender produced
	sc.mu.Lock()
	for m, cs := range sc.store {
		nchunks[m] = len(cs)
	}
	sc.mu.Unlock()
	// message complete within log[0:upto) using legitimate arrivals only
	completeLegit := func(m, upto int) bool {
		k := nchunks[m]
		if k == 0 {
			return false
		}
		have := make([]bool, k)
		for i := 0; i < upto && i < len(log); i++ {
			if log[i].Msg == m && legit[i] && log[i].Chunk < k {
				have[log[i].Chunk] = true
			}
		}
		for _, h := range have {
			if !h {
				return false
			}
		}
		return true
	}

	o.Nontrivial = nbad > 0
	opClass := "none"
	if firstBad >= 0 {
		e := log[firstBad]
		// classify the first illegitimate chunk by the operation that produced it
		opClass = "replay"
		if sc.swapMsg == e.Msg {
			opClass = "swap-msg"
		} else if sc.swapChunk[0] == e.Msg && sc.swapChunk[1] == e.Chunk && nchunks[e.Msg] > e.Chunk+1 {
			opClass = "swap-chunk"
		} else if firstBad > 0 && log[firstBad-1].Orig == e.Orig {
			opClass = "immediate-duplicate"
		}
		if nchunks[e.Msg] > 1 {
			opClass += "/multi-chunk-message"
		} else {
			opClass += "/single-chunk-message"
		}
	}
	o.Classes = append(o.Classes, c.Policy+"|"+c.Mode+"|"+c.Kind+"|"+opClass, "first-illegitimate="+opClass, "kind="+c.Kind,
		fmt.Sprintf("illegitimate-chunks=%d", min(nbad, 6)), fmt.Sprintf("renewals=%d", len(renewAfter)))
	for _, op := range c.Ops {
		o.Classes = append(o.Classes, "op="+op.Kind)
	}
	crossRenewal := false
	if firstBad >= 0 {
		for i := 0; i < firstBad; i++ {
			if log[i].Msg == -1 && log[i].Orig > log[firstBad].Orig {
				crossRenewal = true
			}
		}
	}
	if crossRenewal {
		o.Classes = append(o.Classes, "replay-crosses-renewal")
	}
	nj := len(jumpAfter)
	if jumpFirst != 0 {
		nj++
	}
	o.Classes = append(o.Classes, fmt.Sprintf("jumps-drawn=%d", nj), fmt.Sprintf("jumps-done=%d", jumpsDone.Load()))
	if jumpsSkipped.Load() > 0 {
		o.Classes = append(o.Classes, "jump-skipped(receiver-not-quiescent)")
	}
	if wrapJumpAfter >= 0 && int(jumpsDone.Load()) == nj {
		o.Classes = append(o.Classes, "sender-wraps-around")
		if firstBad >= 0 && log[firstBad].Msg >= 0 && log[firstBad].Msg <= wrapJumpAfter {
			for i := 0; i < firstBad; i++ {
				if log[i].Msg > wrapJumpAfter {
					o.Classes = append(o.Classes, "replay-of-a-pre-wrap-chunk-after-the-wrap-around")
					break
				}
			}
		}
	}
	if firstBad >= 0 && log[firstBad].Msg >= 0 {
		// the numbering moved on by more than 2^31 between the original and its copy
		far := false
		for k, to := range jumpAfter {
			if k < log[firstBad].Msg || to < 1<<31+1024 {
				continue
			}
			for i := 0; i < firstBad; i++ {
				if log[i].Msg > k {
					far = true
				}
			}
		}
		if far {
			o.Classes = append(o.Classes, "replayed-chunk-more-than-2^31-behind")
		}
	}
	o.Note = fmt.Sprintf("forwarded=%d illegitimate=%d first=%d (%s) delivered=%d firstErr=%s", len(log), nbad, firstBad, opClass, len(delivered), firstErr)

	if panicked != "" {
		o.Violation = "Receive panicked: " + panicked
		return
	}
	seen := map[int]int{}
	for _, d := range delivered {
		if !d.Shape {
			o.Violation = "a message was delivered that the sender never produced (unexpected shape)"
			return
		}
		tag, pad, intact := mitm.ParseText(d.Text)
		if tag < 0 || tag >= total {
			o.Violation = "a message was delivered that the sender never produced"
			return
		}
		if !intact || pad != padOf(tag) {
			o.Violation = fmt.Sprintf("message %d was delivered with modified content", tag)
			return
		}
		if d.Slot >= 0 && d.Slot != tag {
			o.Violation = fmt.Sprintf("response %d was delivered to the handler of request %d", tag, d.Slot)
			return
		}
		seen[tag]++
		if seen[tag] > 1 {
			o.Violation = fmt.Sprintf("message %d was delivered to the application %d times (a verbatim copy of its chunk(s) was re-sent later)", tag, seen[tag])
			return
		}
		if c.Kind == "server" {
			upto := len(log)
			if firstBad >= 0 {
				upto = firstBad
			}
			if !completeLegit(tag, upto) {
				e := log[firstBad]
				o.Violation = fmt.Sprintf("Receive returned message %d without an error although the replayed / re-ordered chunk (message %d chunk %d, forwarded at position %d after later chunks) had to be consumed first: that Receive returned a message instead of an error", tag, e.Msg, e.Chunk, firstBad)
				return
			}
		} else if !completeLegit(tag, len(log)) {
			o.Violation = fmt.Sprintf("response %d reached its handler although its chunk(s) only arrived after chunks with higher sequence numbers (re-ordered)", tag)
			return
		}
	}
	// evidence only (delivery of legitimate traffic is another property's business)
	upto := len(log)
	if c.Kind == "server" && firstBad >= 0 {
		upto = firstBad
	}
	want := 0
	for m := 0; m < total; m++ {
		if completeLegit(m, upto) {
			want++
		}
	}
	if len(delivered) == want {
		o.Classes = append(o.Classes, "legitimate-messages=all-delivered")
	} else {
		o.Classes = append(o.Classes, "legitimate-messages=not-all-delivered")
	}
	if c.Kind == "server" {
		if firstErr != "" {
			o.Classes = append(o.Classes, "first-error="+firstErr)
		}
		return
	}
	if sentinelSeen {
		o.Classes = append(o.Classes, "sentinel=delivered")
		need := min(nbad, 16)
		if len(sentinelErrs) < need {
			o.Violation = fmt.Sprintf("%d replayed / re-ordered chunk(s) were forwarded and the dispatcher consumed them all (the sentinel sent afterwards was delivered), but only %d Receive call(s) reported an error: a replayed chunk was returned by Receive without error", nbad, len(sentinelErrs))
			return
		}
		for _, e := range sentinelErrs {
			o.Classes = append(o.Classes, "reported-error="+e)
		}
	} else {
		o.Classes = append(o.Classes, "sentinel=not-delivered")
	}
	return
}

// ---------------------------------------------------------------------------
// generator

var shorts = func() []string {
	var s []string
	for _, p := range mitm.Secured {
		s = append(s, mitm.Short(p))
	}
	return s
}()

func genCase(t *rapid.T, kind string) Case {
	c := Case{Kind: kind, Buf: 8192}
	c.Policy = rapid.SampledFrom(shorts).Draw(t, "policy")
	c.Mode = rapid.SampledFrom([]string{"Sign", "SignAndEncrypt"}).Draw(t, "mode")
	if ev.Thorough() {
		c.Buf = rapid.SampledFrom([]int{8192, 8192, 8192, 16384}).Draw(t, "buf")
	}
	n := rapid.IntRange(2, 12).Draw(t, "messages")
	for i := 0; i < n; i++ {
		var m Msg
		if rapid.IntRange(0, 9).Draw(t, "shape") < 7 {
			m.Pad = rapid.IntRange(0, 300).Draw(t, "pad")
		} else {
			m.Pad = rapid.IntRange(c.Buf, 2*c.Buf+c.Buf/2).Draw(t, "padMulti")
		}
		c.Msgs = append(c.Msgs, m)
	}
	nr := rapid.SampledFrom([]int{0, 0, 0, 1, 1, 2}).Draw(t, "renewals")
	for i := 0; i < nr; i++ {
		c.Renew = append(c.Renew, rapid.IntRange(0, n-2).Draw(t, "renewAfter"))
	}
	nops := rapid.IntRange(1, 4).Draw(t, "ops")
	for i := 0; i < nops; i++ {
		kinds := []string{"replay-msg", "replay-msg", "replay-chunk", "replay-chunk", "dup-chunk", "swap-msg", "swap-chunk"}
		if nr > 0 {
			kinds = append(kinds, "replay-after-renew", "replay-after-renew")
		}
		op := Op{Kind: rapid.SampledFrom(kinds).Draw(t, "op")}
		op.Src = rapid.IntRange(0, n-1).Draw(t, "src")
		op.Chunk = rapid.IntRange(0, 2).Draw(t, "chunk")
		op.At = rapid.IntRange(0, n-1).Draw(t, "at")
		c.Ops = append(c.Ops, op)
	}
	switch jk := rapid.IntRange(0, 5).Draw(t, "jumps"); {
	case jk < 2:
		// 1-3 forward jumps, each shorter than 2^31
		nj := rapid.IntRange(1, 3).Draw(t, "njumps")
		after := rapid.IntRange(-1, n-1).Draw(t, "jumpAfter")
		to := uint32(0)
		for i := 0; i < nj && after < n; i++ {
			to += rapid.SampledFrom(jumpDeltas).Draw(t, "jumpDelta") + uint32(rapid.IntRange(0, 3000).Draw(t, "jumpOff"))
			if to > 4294966271-70000 || to < 70000 {
				break
			}
			c.Jumps = append(c.Jumps, Jump{After: after, To: to, First: after < 0})
			after += rapid.IntRange(1, 4).Draw(t, "jumpGap")
		}
	case jk == 2 && n >= 3:
		// the sender climbs to its wrap-around point and wraps: every scripted
		// chunk before the wrap has a number above 10^9, later ones restart at 1
		a := rapid.IntRange(0, n-3).Draw(t, "wrapA")
		b := rapid.IntRange(a+1, n-2).Draw(t, "wrapB")
		c.Jumps = append(c.Jumps,
			Jump{First: true, To: 1400000000 + uint32(rapid.IntRange(0, 3000).Draw(t, "jumpOff"))},
			Jump{After: a, To: 2800000000 + uint32(rapid.IntRange(0, 3000).Draw(t, "jumpOff"))},
			Jump{After: b, To: 4294966271 - uint32(rapid.IntRange(0, 40).Draw(t, "wrapBack"))})
	}
	return c
}

// ---------------------------------------------------------------------------
// tests

func record(c Case, o outcome) {
	if o.Infra != "" {
		why := o.Infra
		if i := strings.IndexAny(why, ":("); i > 0 {
			why = why[:i]
		}
		rec.Case(false, 0, "harness=no-verdict", "harness=no-verdict: "+strings.TrimSpace(why))
		if os.Getenv("VERIF_DEBUG") != "" {
			fmt.Fprintln(os.Stderr, "no verdict:", o.Infra)
		}
		return
	}
	b, _ := json.Marshal(c)
	rec.Case(o.Nontrivial, ev.Hash(b), o.Classes...)
	if o.Nontrivial && rec.WantSample() {
		rec.Sample(map[string]any{"case": c, "observed": o.Note})
	}
}

func property(t *rapid.T, test, kind string) {
	c := genCase(t, kind)
	rec.Journal(test, c)
	o := run(c)
	rec.JournalDone(test)
	record(c, o)
	if o.Infra != "" {
		t.Logf("no verdict: %s", o.Infra)
		return
	}
	if o.Violation != "" {
		rec.Fail(t, test, c, "%s", o.Violation)
	}
}

func assume() {
	rec.Assume("the sender (gopcua) numbers its chunks in the order it writes them to the connection (checked on the wire in Sign mode, where the sequence header is readable); a forwarded chunk is legitimate iff it is later in that order than everything forwarded before it")
	rec.Assume("server kind: Receive is not called again after it returned an error (what server/channel_broker.go does); client kind: 'Receive returned an error' is observed through the error channel given to uasc.NewSecureChannel at the moment a sentinel response sent after everything else reaches its handler")
	rec.Assume("a duplicated intermediate chunk that is silently skipped while the message is still delivered once counts as a violation: the property text requires received sequence numbers to increase strictly and the replayed chunk to be rejected")
}

// TestReplayServer: the server channel receives a request history with replays.
func TestReplayServer(t *testing.T) {
	assume()
	rapid.Check(t, func(t *rapid.T) { property(t, "TestReplayServer", "server") })
}

// TestReplayClient: the client channel receives a response history with replays.
func TestReplayClient(t *testing.T) {
	assume()
	rapid.Check(t, func(t *rapid.T) { property(t, "TestReplayClient", "client") })
}

// TestReplay re-runs a saved case without rapid.
func TestReplay(t *testing.T) {
	rp, err := ev.LoadReplay()
	if err != nil {
		t.Fatal(err)
	}
	if rp == nil {
		t.Skip("no VERIF_REPLAY")
	}
	var c Case
	if err := json.Unmarshal(rp.Case, &c); err != nil {
		t.Fatal(err)
	}
	fmt.Println("REPLAYED structured")
	o := run(c)
	if o.Infra != "" {
		fmt.Fprintln(os.Stderr, "no verdict:", o.Infra)
		t.Skip(o.Infra)
	}
	t.Logf("%s classes=%v", o.Note, o.Classes)
	if o.Violation != "" {
		t.Fatalf("property C10 violated: %s", o.Violation)
	}
}
