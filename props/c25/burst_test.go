package c25

import (
	"context"
	"fmt"
	"sort"
	"strings"
	"sync"
	"time"

	"github.com/gopcua/opcua"
	"github.com/gopcua/opcua/ua"

	"verif/pkg/starve"
)

// executeBurst runs the "Close races with the reconnect" script for c.Burst
// clients at once: every client (own proxy, same server) is connected, gets its
// connection reset and is closed i*c.BurstStepUs microseconds later (i = index
// of the client), i.e. somewhere within the first milliseconds of the
// reconnect. Then the common part of the oracle is applied to all of them:
// reported histories, State()==Closed, no connection attempt on any proxy
// during the quiet window, no client-side goroutine left. One burst costs as
// much wall time as one script and samples the window c.Burst times.
func executeBurst(c Case, fresh bool) (res result, err error) {
	poolMu.Lock()
	defer poolMu.Unlock()
	var p *pool
	if fresh {
		if p, err = newPool(); err != nil {
			return res, infra("server: %v", err)
		}
		defer p.close()
	} else {
		if shared == nil {
			if shared, err = newPool(); err != nil {
				shared = nil
				return res, infra("server: %v", err)
			}
		}
		p = shared
	}
	fail := func(format string, a ...any) {
		if res.verdict == "" {
			res.verdict = fmt.Sprintf(format, a...)
		}
	}
	classes := map[string]bool{"burst:close-races-with-reconnect": true}
	baseline := clientGoroutines()

	type one struct {
		fn     *faultNet
		cl     *opcua.Client
		obs    *observer
		tClose time.Time
		us     int
	}
	cs := make([]*one, c.Burst)
	var wg sync.WaitGroup
	var emu sync.Mutex
	var cerr error
	for i := range cs {
		o := &one{us: i * c.BurstStepUs}
		cs[i] = o
		fn, e := newFaultNet(p.addr())
		if e != nil {
			return res, infra("tap: %v", e)
		}
		o.fn = fn
		defer fn.tap.Close()
		obs, oopts := newObserver(c.Observer)
		o.obs = obs
		defer obs.close()
		opts := append([]opcua.Option{
			opcua.SecurityMode(ua.MessageSecurityModeNone), opcua.AutoReconnect(true),
			opcua.ReconnectInterval(time.Duration(c.IntervalMs) * time.Millisecond),
			opcua.RequestTimeout(time.Duration(c.TimeoutMs) * time.Millisecond), opcua.DialTimeout(time.Second),
		}, oopts...)
		cl, e := opcua.NewClient("opc.tcp://"+fn.tap.Addr(), opts...)
		if e != nil {
			return res, infra("NewClient: %v", e)
		}
		o.cl = cl
		wg.Add(1)
		go func() {
			defer wg.Done()
			ctx, cancel := context.WithTimeout(context.Background(), connectTimeout)
			defer cancel()
			if e := cl.Connect(ctx); e != nil {
				emu.Lock()
				cerr = e
				emu.Unlock()
			}
		}()
	}
	wg.Wait()
	closeAll := func() {
		for _, o := range cs {
			ctx, cancel := context.WithTimeout(context.Background(), 5*time.Second)
			o.cl.Close(ctx)
			cancel()
		}
	}
	if cerr != nil {
		closeAll()
		return res, fmt.Errorf("%w: Connect on a healthy network: %v", errEnv, cerr)
	}
	for _, o := range cs {
		o.obs.mark(markConnectOK)
	}
	// reset, wait, close
	for _, o := range cs {
		wg.Add(1)
		go func(o *one) {
			defer wg.Done()
			o.fn.kill(false)
			time.Sleep(time.Duration(o.us) * time.Microsecond)
			o.obs.mark(markCloseCall)
			ctx, cancel := context.WithTimeout(context.Background(), 5*time.Second)
			o.cl.Close(ctx)
			cancel()
			o.obs.mark(markCloseRet)
			o.tClose = time.Now()
		}(o)
	}
	done := make(chan struct{})
	go func() { wg.Wait(); close(done) }()
	hb := starve.Begin()
	select {
	case <-done:
	case <-time.After(closeBound):
		if w := hb.Settle(); 10*w > closeBound {
			res.starved = true
		} else {
			res.observed.Goroutines = sortedGoroutines(clientGoroutines())
			fail("Close(ctx with a 5 s deadline) of a client whose connection was just reset has not returned after %v", closeBound)
			res.timing = true
		}
		for _, o := range cs {
			o.fn.kill(false)
		}
		<-done
	}
	tClose := time.Now() // all have returned
	hbGrace := starve.Begin()
	time.Sleep(200 * time.Millisecond)
	for w := hbGrace.Settle(); 10*w > time.Since(tClose) && time.Since(tClose) < 5*time.Second; w = hbGrace.Settle() {
		time.Sleep(100 * time.Millisecond)
	}
	grace := time.Since(tClose)
	graceNow := max(closeGrace, 10*hbGrace.Worst())
	acc0 := make([]int, len(cs))
	for i, o := range cs {
		acc0[i] = o.fn.tap.Accepted()
	}
	quietEnd := time.Now().Add(quietWindow)
	for time.Now().Before(quietEnd) {
		for _, o := range cs {
			if s := o.cl.State(); s != opcua.Closed && time.Since(o.tClose) > graceNow {
				fail("State() is %s %v after Close returned (client closed %d us after a reset)", stateNames[int(s)], time.Since(o.tClose).Round(time.Millisecond), o.us)
			}
		}
		time.Sleep(20 * time.Millisecond)
	}
	for i, o := range cs {
		if acc1 := o.fn.tap.Accepted(); acc1 != acc0[i] {
			fail("the proxy accepted %d new connection(s) between %v and %v after Close had returned (client closed %d us after a reset)", acc1-acc0[i], grace.Round(time.Millisecond), (grace + quietWindow).Round(time.Millisecond), o.us)
		}
	}
	leaked := func() map[int]string {
		cur := clientGoroutines()
		for id := range baseline {
			delete(cur, id)
		}
		return cur
	}
	lk := leaked()
	for len(lk) > 0 && time.Since(tClose) < leakFirstWait {
		time.Sleep(50 * time.Millisecond)
		lk = leaked()
	}
	if len(lk) > 0 {
		first := lk
		for len(lk) > 0 && time.Since(tClose) < leakConfirm {
			time.Sleep(200 * time.Millisecond)
			lk = leaked()
		}
		still := map[int]string{}
		for id, d := range lk {
			if _, ok := first[id]; ok {
				still[id] = d
			}
		}
		if w := hbGrace.Settle(); len(still) > 0 && 10*w > leakConfirm {
			res.starved = true
		} else if len(still) > 0 {
			gs := sortedGoroutines(still)
			res.observed.Goroutines = gs
			fail("%d client-side gopcua goroutine(s) that did not exist before the %d clients were created are still running %v after all of them were closed (each i*%d us after a reset): %s", len(still), c.Burst, time.Since(tClose).Round(time.Second), c.BurstStepUs, strings.Join(gs, " || "))
		}
	}
	var hists []string
	for _, o := range cs {
		o.obs.mu.Lock()
		o.obs.drainLocked()
		for _, sl := range []*stateLog{o.obs.fn, o.obs.ch} {
			if sl == nil {
				continue
			}
			v, late := judgeLog(sl, graceNow)
			if late > 0 {
				classes["non-Closed-report-within-grace-after-Close"] = true
			}
			if v != "" && (res.verdict == "" || res.timing) {
				res.verdict, res.timing = fmt.Sprintf("%s (client closed %d us after a reset)", v, o.us), false
			}
			hists = append(hists, fmt.Sprintf("%dus:%s", o.us, renderLog(sl.log)))
		}
		o.obs.mu.Unlock()
	}
	res.observed.StatesFunc = strings.Join(hists, " ; ")
	res.observed.Verdict = res.verdict
	classes["observer:"+c.Observer] = true
	for k := range classes {
		res.classes = append(res.classes, k)
	}
	sort.Strings(res.classes)
	if res.starved {
		res.classes = append(res.classes, "starved(timing-verdict-dropped)")
	}
	return res, nil
}
