package c25

import (
	"encoding/binary"
	"fmt"
	"sync"
	"time"

	"github.com/gopcua/opcua/id"

	"verif/pkg/netx"
	"verif/pkg/stack"
)

// ---------------------------------------------------------------------------
// servers: one active server and one standby per process. A "restart" hands
// the proxy over to the standby - a server instance that has never seen the
// client (its secure channel and its session are unknown there, exactly as
// after a restart) - resets the connections of the old instance, stops the old
// instance and builds the next standby in the background. The client only
// knows the proxy's address, so "the port is kept" by construction.

type pool struct {
	mu      sync.Mutex
	active  *stack.Server
	standby chan *stack.Server // holds the next ready server (or nil on error)
	err     error
}

const varName = "c25v"

func startOne() (*stack.Server, error) {
	s, err := stack.StartServer(stack.ServerOpts{})
	if err != nil {
		return nil, err
	}
	s.AddVariable(varName, int64(25))
	return s, nil
}

func (p *pool) prepareStandby() {
	ch := make(chan *stack.Server, 1)
	p.standby = ch
	go func() {
		s, err := startOne()
		if err != nil {
			ch <- nil
			return
		}
		ch <- s
	}()
}

func newPool() (*pool, error) {
	p := &pool{}
	s, err := startOne()
	if err != nil {
		return nil, err
	}
	p.active = s
	p.prepareStandby()
	return p, nil
}

func (p *pool) addr() string {
	p.mu.Lock()
	defer p.mu.Unlock()
	return fmt.Sprintf("127.0.0.1:%d", p.active.Port)
}

// swap makes the standby the active server and returns the old one (to be
// closed by the caller once its connections are gone).
func (p *pool) swap() (old *stack.Server, err error) {
	p.mu.Lock()
	ch := p.standby
	p.mu.Unlock()
	s := <-ch
	if s == nil {
		// try once more synchronously
		if s, err = startOne(); err != nil {
			return nil, err
		}
	}
	p.mu.Lock()
	old = p.active
	p.active = s
	p.prepareStandby()
	p.mu.Unlock()
	return old, nil
}

func (p *pool) close() {
	p.mu.Lock()
	a, ch := p.active, p.standby
	p.active, p.standby = nil, nil
	p.mu.Unlock()
	if a != nil {
		go a.Close()
	}
	if ch != nil {
		go func() {
			if s := <-ch; s != nil {
				s.Close()
			}
		}()
	}
}

// ---------------------------------------------------------------------------
// frame labels (security policy None: everything is readable)

var services = map[uint16]string{
	id.CreateSessionRequest_Encoding_DefaultBinary:         "CreateSession",
	id.ActivateSessionRequest_Encoding_DefaultBinary:       "ActivateSession",
	id.CloseSessionRequest_Encoding_DefaultBinary:          "CloseSession",
	id.ReadRequest_Encoding_DefaultBinary:                  "Read",
	id.TransferSubscriptionsRequest_Encoding_DefaultBinary: "TransferSubscriptions",
}

type connSt struct {
	serial int
	count  [2]int
	reqs   map[uint32]string // request id -> service
}

// label names a frame: "c2s:HEL", "s2c:ACK", "c2s:OPN", "s2c:OPN",
// "c2s:<Service>", "s2c:<Service>" (the response to that service, whatever its
// type), "c2s:CLO", or dir+":?".
func label(dir netx.Dir, f []byte, cs *connSt) string {
	d := dir.String()
	if len(f) < 8 {
		return d + ":?"
	}
	switch string(f[:3]) {
	case "HEL", "ACK", "ERR", "OPN", "CLO":
		return d + ":" + string(f[:3])
	case "MSG":
		if len(f) < 28 {
			return d + ":?"
		}
		reqID := binary.LittleEndian.Uint32(f[20:])
		if dir == netx.C2S {
			svc := "?"
			if f[24] == 0x01 && f[25] == 0 {
				if n, ok := services[binary.LittleEndian.Uint16(f[26:])]; ok {
					svc = n
				}
			}
			if f[3] == 'F' {
				cs.reqs[reqID] = svc
			}
			return d + ":" + svc
		}
		if svc, ok := cs.reqs[reqID]; ok {
			if f[3] == 'F' {
				delete(cs.reqs, reqID)
			}
			return d + ":" + svc
		}
	}
	return d + ":?"
}

// ---------------------------------------------------------------------------
// fault network: a netx.Tap whose hook implements the frame-triggered faults

type mode int

const (
	modeFwd mode = iota
	modeBlackhole
	modeStall
)

type fired struct {
	Label string
	Conn  int // serial of the connection
	Size  int
	Kept  int // cut: bytes still forwarded
}

type trigger struct {
	label     string
	minSerial int // only connections first seen with serial >= minSerial
	fault     Fault
	ch        chan fired
}

type faultNet struct {
	tap *netx.Tap

	mu         sync.Mutex
	epoch      int
	conns      map[[2]int]*connSt
	nextSerial int
	doomed     int // frames of connections with serial < doomed are dropped
	mode       mode
	dirs       [2]bool
	until      time.Time
	trig       *trigger
	events     []string
	t0         time.Time
	helSeen    int
	lastS2C    time.Time // last frame that came from the server
	lastAccept time.Time // last time a new connection showed up
}

func newFaultNet(upstream string) (*faultNet, error) {
	tap, err := netx.NewTap(upstream)
	if err != nil {
		return nil, err
	}
	n := &faultNet{tap: tap, conns: map[[2]int]*connSt{}, t0: time.Now()}
	tap.SetHook(n.hook)
	return n, nil
}

func (n *faultNet) logf(format string, a ...any) {
	// n.mu held
	if len(n.events) < 400 {
		n.events = append(n.events, fmt.Sprintf("%6dms ", time.Since(n.t0).Milliseconds())+fmt.Sprintf(format, a...))
	}
}

func (n *faultNet) event(format string, a ...any) {
	n.mu.Lock()
	n.logf(format, a...)
	n.mu.Unlock()
}

func (n *faultNet) eventLog() []string {
	n.mu.Lock()
	defer n.mu.Unlock()
	return append([]string(nil), n.events...)
}

func dirMask(d string) [2]bool {
	switch d {
	case "c2s":
		return [2]bool{true, false}
	case "s2c":
		return [2]bool{false, true}
	}
	return [2]bool{true, true}
}

func (n *faultNet) hook(dir netx.Dir, idx int, frame []byte) [][]byte {
	n.mu.Lock()
	key := [2]int{n.epoch, idx}
	cs := n.conns[key]
	if cs == nil {
		cs = &connSt{serial: n.nextSerial, reqs: map[uint32]string{}}
		n.lastAccept = time.Now()
		n.nextSerial++
		n.conns[key] = cs
	}
	cs.count[dir]++
	if dir == netx.S2C {
		n.lastS2C = time.Now()
	}
	lb := label(dir, frame, cs)
	if lb == "c2s:HEL" {
		n.helSeen++
	}
	if cs.serial < n.doomed {
		n.logf("conn %d %s dropped (connection is being cut)", cs.serial, lb)
		n.mu.Unlock()
		return nil
	}
	out := [][]byte{frame}
	if tr := n.trig; tr != nil && tr.label == lb && cs.serial >= tr.minSerial {
		n.trig = nil
		fi := fired{Label: lb, Conn: cs.serial, Size: len(frame)}
		switch tr.fault.Kind {
		case "rst", "fin", "restart", "refuse":
			n.doomed = n.nextSerial
			if !tr.fault.After {
				out = nil
			}
		case "cut":
			n.doomed = n.nextSerial
			k := tr.fault.K
			if k > len(frame)-1 {
				k = len(frame) - 1
			}
			if k < 1 {
				k = 1
			}
			fi.Kept = k
			out = [][]byte{frame[:k]}
		case "blackhole":
			n.mode, n.dirs, n.until = modeBlackhole, dirMask(tr.fault.Dir), time.Now().Add(time.Duration(tr.fault.Ms)*time.Millisecond)
		case "stall":
			n.mode, n.until = modeStall, time.Now().Add(time.Duration(tr.fault.Ms)*time.Millisecond)
		case "signal":
			// no fault: the harness wants to know that this frame passes
		}
		n.logf("conn %d %s (%d bytes) TRIGGERS %s", cs.serial, lb, len(frame), tr.fault.Kind)
		tr.ch <- fi
		if n.doomed == n.nextSerial {
			// the connection ends here (with nothing, a part of the frame or the whole frame)
			n.mu.Unlock()
			return out
		}
	}
	switch n.mode {
	case modeBlackhole:
		if time.Now().Before(n.until) {
			if n.dirs[dir] {
				n.logf("conn %d %s swallowed", cs.serial, lb)
				n.mu.Unlock()
				return nil
			}
		} else {
			n.mode = modeFwd
		}
	case modeStall:
		if d := time.Until(n.until); d > 0 {
			n.logf("conn %d %s held for %v", cs.serial, lb, d.Round(time.Millisecond))
			n.mu.Unlock()
			time.Sleep(d)
			return out
		}
		n.mode = modeFwd
	}
	n.logf("conn %d %s", cs.serial, lb)
	n.mu.Unlock()
	return out
}

// arm installs a trigger. newConn restricts it to connections that are first
// seen from now on.
func (n *faultNet) arm(lb string, newConn bool, f Fault) *trigger {
	tr := &trigger{label: lb, fault: f, ch: make(chan fired, 1)}
	n.mu.Lock()
	if newConn {
		tr.minSerial = n.nextSerial
	}
	n.trig = tr
	n.logf("armed %s on %q (new connection only: %v)", f.Kind, lb, newConn)
	n.mu.Unlock()
	return tr
}

func (n *faultNet) disarm() {
	n.mu.Lock()
	n.trig = nil
	n.mu.Unlock()
}

// kill closes every proxied connection (RST or FIN).
func (n *faultNet) kill(fin bool) {
	n.mu.Lock()
	n.epoch++
	n.doomed = n.nextSerial
	if fin {
		n.logf("FIN all connections")
	} else {
		n.logf("RST all connections")
	}
	n.mu.Unlock()
	if fin {
		n.tap.FinAll()
	} else {
		n.tap.Reset()
	}
}

func (n *faultNet) setMode(m mode, dirs [2]bool, d time.Duration) {
	n.mu.Lock()
	n.mode, n.dirs, n.until = m, dirs, time.Now().Add(d)
	n.logf("mode %d dirs %v for %v", m, dirs, d)
	n.mu.Unlock()
}

// heal makes the proxy forward again.
func (n *faultNet) heal() {
	n.mu.Lock()
	n.mode = modeFwd
	n.until = time.Now()
	n.trig = nil
	n.logf("HEAL")
	n.mu.Unlock()
	n.tap.Refuse(false)
}

// idleFor tells for how long neither a new connection carried a frame nor the
// server sent anything.
func (n *faultNet) idleFor() time.Duration {
	n.mu.Lock()
	defer n.mu.Unlock()
	last := n.lastS2C
	if n.lastAccept.After(last) {
		last = n.lastAccept
	}
	if last.IsZero() {
		last = n.t0
	}
	return time.Since(last)
}

func (n *faultNet) remaining() time.Duration {
	n.mu.Lock()
	defer n.mu.Unlock()
	return time.Until(n.until)
}
