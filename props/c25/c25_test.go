// Package c25 decides property C25: the connection state of an opcua.Client
// follows the documented lifecycle under faults.
//
// A case is a fault script executed against client <-> netx.Tap <-> in-process
// gopcua server (policy None, AutoReconnect on, DialTimeout 1 s). Faults: RST,
// orderly close (either losing the frame they are placed on or right behind
// it), cut in the middle of a frame, blackhole (frames swallowed in one or both
// directions), stall (frames held and delivered late), server restart (a fresh
// server instance: channel and session unknown) at once or after an outage,
// proxy refusing connections. Placements: a named frame of the first connect
// (HEL .. UpdateNamespaces Read), idle steady state, the request or the
// response of a Read in flight, a named frame of the next reconnect attempt
// (HEL .. TransferSubscriptions). Then the network heals and the client is
// closed - or (CloseEarly) it is closed while the outage / the reconnect lasts,
// optionally a few microseconds after a named frame of the reconnect (CloseOn),
// or (Burst) 6-16 clients are closed i*step microseconds after a reset.
//
// Oracle (from the five state comments in connstate.go, deliberately minimal):
// only the five documented states are reported; Connecting never after the
// first Connected, Reconnecting never before it; after a failed Connect the
// client does not claim to be Connected; from 100 ms after Close has returned
// nothing but Closed is reported and State() is Closed (Close does not wait for
// the monitor goroutine: what that goroutine was just reporting cannot be told
// from a report made a moment before the return); after heal State()==Connected
// and a Read succeeds within 20 s (a client that has stopped trying for >= 10 s
// or one that keeps failing while a control client with the same timeouts
// works; confirmed 3/3 on fresh servers; heartbeat starvation gate); after
// Close the proxy sees no new connection during 1.5 s and no client-side gopcua
// goroutine that was not there before NewClient is left (re-checked until 25 s
// after Close).
package c25

import (
	"context"
	"encoding/json"
	"errors"
	"fmt"
	"os"
	"regexp"
	"runtime"
	"sort"
	"strconv"
	"strings"
	"sync"
	"testing"
	"time"

	"github.com/gopcua/opcua"
	"github.com/gopcua/opcua/ua"
	"pgregory.net/rapid"

	"verif/pkg/ev"
	"verif/pkg/stack"
	"verif/pkg/starve"
)

func TestMain(m *testing.M) { ev.Main(m) }

var rec = ev.For("C25", "rapid-drawn fault scripts (optional fault on a named frame of the first connect + 1-5 steps of {rst, fin, cut mid-frame, blackhole, stall, server restart quick / after an outage, proxy refuses} placed at {idle, request of a Read in flight, its response in flight, a named frame of the next reconnect attempt}, pauses 0-400 ms, ReconnectInterval 50-200 ms, RequestTimeout 500-1000 ms, observer StateChangedFunc / StateChangedCh / both), then heal + Close or Close during the outage; non-trivial = at least one fault was triggered by a frame of a request or of a handshake step that was in flight; distinct by hash of the script")

// ---------------------------------------------------------------------------
// case

// Fault is what happens.
type Fault struct {
	Kind string `json:"kind"`          // rst | fin | cut | blackhole | stall | restart | refuse
	K    int    `json:"k,omitempty"`   // cut: bytes of the triggering frame that still get through (clamped to 1..len-1)
	End  string `json:"end,omitempty"` // cut: rst | fin
	Dir  string `json:"dir,omitempty"` // blackhole: c2s | s2c | both
	Ms   int    `json:"ms,omitempty"`  // blackhole / stall / refuse: duration; restart: downtime
	// rst / fin placed on a frame: false = the frame is lost, true = the frame
	// still gets through and the connection ends right behind it
	After bool `json:"after,omitempty"`
}

// Step is one fault and where it is placed.
type Step struct {
	At      string `json:"at"`           // connect | idle | req | resp | reconnect
	On      string `json:"on,omitempty"` // connect / reconnect: frame label, e.g. "c2s:HEL", "s2c:ActivateSession"
	Fault   Fault  `json:"fault"`
	PauseMs int    `json:"pause_ms"`
	PauseUs int    `json:"pause_us,omitempty"` // additional pause in microseconds (to sweep the first milliseconds of a reconnect)
}

// Case is the replayable unit.
type Case struct {
	IntervalMs int    `json:"reconnect_interval_ms"`
	TimeoutMs  int    `json:"request_timeout_ms"`
	Observer   string `json:"observer"` // func | chan | both
	Connect    *Step  `json:"connect,omitempty"`
	Steps      []Step `json:"steps"`
	CloseEarly bool   `json:"close_early,omitempty"` // Close right after the last step (no heal before)
	// CloseOn (with CloseEarly): after the last step the connection is reset (if
	// there is one) and Close is called CloseDelayUs microseconds after the named
	// frame of the following reconnect attempt has passed the proxy
	CloseOn      string `json:"close_on,omitempty"`
	CloseDelayUs int    `json:"close_delay_us,omitempty"`
	// Burst > 0: the fixed script "reset at idle, Close i*BurstStepUs microseconds
	// later" for Burst clients (i = 0..Burst-1) at once (see executeBurst)
	Burst       int `json:"burst,omitempty"`
	BurstStepUs int `json:"burst_step_us,omitempty"`
	// filled on failure (informational)
	Observed *Observed `json:"observed,omitempty"`
}

// Observed describes what a failing execution saw.
type Observed struct {
	Verdict    string   `json:"verdict"`
	StatesFunc string   `json:"states_func,omitempty"`
	StatesChan string   `json:"states_chan,omitempty"`
	Events     []string `json:"events,omitempty"`
	Goroutines []string `json:"goroutines,omitempty"`
	Others     []string `json:"confirmations,omitempty"`
}

var connectFrames = []string{"c2s:HEL", "s2c:ACK", "c2s:OPN", "s2c:OPN", "c2s:CreateSession", "s2c:CreateSession", "c2s:ActivateSession", "s2c:ActivateSession", "c2s:Read", "s2c:Read"}
var reconnectFrames = []string{"c2s:HEL", "s2c:ACK", "c2s:OPN", "s2c:OPN", "c2s:ActivateSession", "s2c:ActivateSession", "c2s:CreateSession", "s2c:CreateSession", "c2s:Read", "s2c:Read", "c2s:TransferSubscriptions", "s2c:TransferSubscriptions"}

func genFault(t *rapid.T, timeoutMs int) Fault {
	var f Fault
	f.Kind = rapid.SampledFrom([]string{"rst", "rst", "fin", "cut", "cut", "blackhole", "blackhole", "stall", "restart", "restart", "refuse"}).Draw(t, "kind")
	dur := func() int {
		switch rapid.IntRange(0, 3).Draw(t, "durClass") {
		case 0:
			return rapid.IntRange(20, timeoutMs/2).Draw(t, "msShort")
		case 1:
			return rapid.IntRange(timeoutMs-100, timeoutMs+400).Draw(t, "msAroundTimeout")
		default:
			return rapid.IntRange(timeoutMs+400, 2500).Draw(t, "msLong")
		}
	}
	switch f.Kind {
	case "rst", "fin":
		f.After = rapid.Bool().Draw(t, "afterFrame")
	case "cut":
		switch rapid.IntRange(0, 2).Draw(t, "kClass") {
		case 0:
			f.K = rapid.IntRange(1, 12).Draw(t, "kHeader")
		case 1:
			f.K = rapid.IntRange(13, 130).Draw(t, "kBody")
		default:
			f.K = rapid.IntRange(131, 1100).Draw(t, "kTail")
		}
		f.End = rapid.SampledFrom([]string{"rst", "fin"}).Draw(t, "cutEnd")
	case "blackhole":
		f.Dir = rapid.SampledFrom([]string{"c2s", "s2c", "both"}).Draw(t, "bhDir")
		f.Ms = dur()
	case "stall", "refuse":
		f.Ms = dur()
	case "restart":
		if rapid.Bool().Draw(t, "quickRestart") {
			f.Ms = 0
		} else {
			f.Ms = rapid.IntRange(50, 2000).Draw(t, "downtime")
		}
	}
	return f
}

func genCase(t *rapid.T) Case {
	c := Case{
		IntervalMs: rapid.SampledFrom([]int{50, 100, 200}).Draw(t, "interval"),
		TimeoutMs:  rapid.SampledFrom([]int{500, 700, 1000}).Draw(t, "timeout"),
		Observer:   rapid.SampledFrom([]string{"func", "chan", "both"}).Draw(t, "observer"),
	}
	if rapid.IntRange(0, 11).Draw(t, "burst") == 0 {
		c.Burst = rapid.IntRange(6, 16).Draw(t, "burstClients")
		c.BurstStepUs = rapid.IntRange(50, 600).Draw(t, "burstStepUs")
		c.Steps = []Step{{At: "idle", Fault: Fault{Kind: "rst"}}}
		c.CloseEarly = true
		return c
	}
	if rapid.IntRange(0, 9).Draw(t, "connectFault") < 2 {
		st := Step{At: "connect", On: rapid.SampledFrom(connectFrames).Draw(t, "connectOn"), Fault: genFault(t, c.TimeoutMs)}
		c.Connect = &st
	}
	n := rapid.IntRange(1, 5).Draw(t, "nsteps")
	for i := 0; i < n; i++ {
		var st Step
		switch x := rapid.IntRange(0, 9).Draw(t, "at"); {
		case x < 2:
			st.At = "idle"
		case x < 4:
			st.At = "req"
		case x < 6:
			st.At = "resp"
		default:
			st.At = "reconnect"
			st.On = rapid.SampledFrom(reconnectFrames).Draw(t, "reconnectOn")
		}
		st.Fault = genFault(t, c.TimeoutMs)
		switch rapid.IntRange(0, 2).Draw(t, "pauseClass") {
		case 0:
			st.PauseMs = 0
		case 1:
			st.PauseMs = rapid.IntRange(1, 60).Draw(t, "pauseShort")
		default:
			st.PauseMs = rapid.IntRange(60, 400).Draw(t, "pauseLong")
		}
		c.Steps = append(c.Steps, st)
	}
	c.CloseEarly = rapid.IntRange(0, 9).Draw(t, "closeEarly") < 2
	if c.CloseEarly && rapid.Bool().Draw(t, "closeOnFrame") {
		// Close while a named step of the reconnect is in flight / has just completed
		c.CloseOn = rapid.SampledFrom(reconnectFrames[:10]).Draw(t, "closeOn")
		c.CloseDelayUs = rapid.IntRange(0, 400).Draw(t, "closeDelayUs")
	} else if c.CloseEarly && rapid.Bool().Draw(t, "closeInFirstMilliseconds") {
		// Close within the first milliseconds after the last fault: the reconnect is under way
		last := &c.Steps[len(c.Steps)-1]
		last.PauseMs = 0
		last.PauseUs = rapid.IntRange(0, 5000).Draw(t, "pauseUs")
	}
	return c
}

// ---------------------------------------------------------------------------
// observer

const (
	markConnectOK  = -1
	markConnectErr = -2
	markHeal       = -3
	markCloseCall  = -4
	markCloseRet   = -5
)

type stateLog struct {
	name string
	log  []int
	at   []time.Time // when the entry was recorded by the harness
}

func (sl *stateLog) add(v int) {
	sl.log = append(sl.log, v)
	sl.at = append(sl.at, time.Now())
}

type observer struct {
	mu   sync.Mutex
	fn   *stateLog // entries appended by the StateChangedFunc callback
	ch   *stateLog // entries taken from the StateChangedCh channel
	c    chan opcua.ConnState
	stop chan struct{}
	done chan struct{}
}

func newObserver(kind string) (*observer, []opcua.Option) {
	o := &observer{stop: make(chan struct{}), done: make(chan struct{})}
	var opts []opcua.Option
	if kind == "func" || kind == "both" {
		o.fn = &stateLog{name: "StateChangedFunc"}
		opts = append(opts, opcua.StateChangedFunc(func(s opcua.ConnState) {
			o.mu.Lock()
			o.fn.add(int(s))
			o.mu.Unlock()
		}))
	}
	if kind == "chan" || kind == "both" {
		o.ch = &stateLog{name: "StateChangedCh"}
		// the documentation asks for a buffer or an eager consumer: both
		o.c = make(chan opcua.ConnState, 1<<16)
		opts = append(opts, opcua.StateChangedCh(o.c))
		go func() {
			defer close(o.done)
			for {
				o.mu.Lock()
				o.drainLocked()
				o.mu.Unlock()
				select {
				case <-o.stop:
					return
				case <-time.After(500 * time.Microsecond):
				}
			}
		}()
	} else {
		close(o.done)
	}
	return o, opts
}

func (o *observer) drainLocked() {
	if o.c == nil {
		return
	}
	for {
		select {
		case s := <-o.c:
			o.ch.add(int(s))
		default:
			return
		}
	}
}

// mark records a harness event in both logs. Everything the client has
// reported before is in front of the mark: the callback appends under the same
// mutex, and the channel is drained under the mutex right before the mark.
func (o *observer) mark(m int) {
	o.mu.Lock()
	o.drainLocked()
	if o.fn != nil {
		o.fn.add(m)
	}
	if o.ch != nil {
		o.ch.add(m)
	}
	o.mu.Unlock()
}

func (o *observer) close() {
	close(o.stop)
	<-o.done
	o.mu.Lock()
	o.drainLocked()
	o.mu.Unlock()
}

var stateNames = map[int]string{0: "Closed", 1: "Connected", 2: "Connecting", 3: "Disconnected", 4: "Reconnecting",
	markConnectOK: "|connect-ok|", markConnectErr: "|connect-err|", markHeal: "|heal|", markCloseCall: "|close-called|", markCloseRet: "|close-returned|"}

func renderLog(l []int) string {
	var b strings.Builder
	run := 0
	for i, s := range l {
		run++
		if i+1 < len(l) && l[i+1] == s {
			continue
		}
		n, ok := stateNames[s]
		if !ok {
			n = fmt.Sprintf("UNDOCUMENTED(%d)", s)
		}
		if b.Len() > 0 {
			b.WriteByte(' ')
		}
		b.WriteString(n)
		if run > 1 {
			fmt.Fprintf(&b, "x%d", run)
		}
		run = 0
	}
	return b.String()
}

// closeGrace: Close does not wait for the monitor goroutine. A notification
// (or a State() value) that goroutine was just producing when Close returned
// cannot be told from one produced a moment before Close returned, and the
// documentation does not promise silence from that instant on. What is
// demanded: from closeGrace after the return on, nothing but Closed.
const closeGrace = 100 * time.Millisecond

// judgeLog applies the state machine of the documentation to one log. grace is
// the tolerance after the return of Close; late counts the non-Closed reports
// that fell into it.
func judgeLog(sl *stateLog, grace time.Duration) (verdict string, late int) {
	connected, closeReturned := false, false
	var tClose time.Time
	for i, s := range sl.log {
		switch {
		case s == markCloseRet:
			closeReturned = true
			tClose = sl.at[i]
		case s < 0:
		case s > 4:
			return fmt.Sprintf("%s reported the undocumented state %d (entry %d)", sl.name, s, i), late
		default:
			st := opcua.ConnState(s)
			if closeReturned && st != opcua.Closed {
				if d := sl.at[i].Sub(tClose); d > grace {
					return fmt.Sprintf("%s reported %s %v after Close had returned", sl.name, stateNames[s], d.Round(time.Millisecond)), late
				}
				late++
			}
			if st == opcua.Connected {
				connected = true
			}
			if st == opcua.Connecting && connected {
				return fmt.Sprintf("%s reported Connecting (\"for the first time\") after the client had been Connected", sl.name), late
			}
			if st == opcua.Reconnecting && !connected {
				return fmt.Sprintf("%s reported Reconnecting (\"previously connected\") before the client was ever Connected", sl.name), late
			}
		}
	}
	return "", late
}

// ---------------------------------------------------------------------------
// goroutines of the client side

var goroutineHead = regexp.MustCompile(`^goroutine (\d+) \[([^\]]*)\]`)

func allStacks() string {
	buf := make([]byte, 1<<20)
	for {
		m := runtime.Stack(buf, true)
		if m < len(buf) {
			return string(buf[:m])
		}
		buf = make([]byte, 2*len(buf))
	}
}

// clientGoroutines returns id -> description of every goroutine that has a
// gopcua frame (or was created by gopcua code) and does not belong to the
// in-process server: server goroutines have a frame or a creator in package
// server, or were created by the server side's OpenSecureChannel handling.
func clientGoroutines() map[int]string {
	out := map[int]string{}
	for _, g := range strings.Split(allStacks(), "\n\n") {
		if !strings.Contains(g, "github.com/gopcua/opcua") {
			continue
		}
		if strings.Contains(g, "github.com/gopcua/opcua/server.") || strings.Contains(g, "handleOpenSecureChannelRequest") {
			continue
		}
		if strings.Contains(g, "verif/pkg/stack.StartServer") || strings.Contains(g, "verif/pkg/stack.(*Server).Close") {
			continue
		}
		m := goroutineHead.FindStringSubmatch(g)
		if m == nil {
			continue
		}
		gid, _ := strconv.Atoi(m[1])
		// description: state + the gopcua frames
		var fr []string
		for _, line := range strings.Split(g, "\n") {
			line = strings.TrimSpace(line)
			if strings.HasPrefix(line, "github.com/gopcua/opcua") || strings.HasPrefix(line, "created by ") {
				if i := strings.Index(line, "(0x"); i > 0 {
					line = line[:i]
				}
				fr = append(fr, strings.TrimPrefix(line, "github.com/gopcua/opcua"))
			}
		}
		if len(fr) > 6 {
			fr = append(fr[:5], fr[len(fr)-1])
		}
		out[gid] = "[" + m[2] + "] " + strings.Join(fr, " < ")
	}
	return out
}

// ---------------------------------------------------------------------------
// execution

var errInfra = errors.New("infrastructure")

// errEnv: the environment was not fit for the case (no verdict, no failure).
var errEnv = errors.New("environment not fit")

func infra(format string, args ...any) error {
	return fmt.Errorf("%w: %s", errInfra, fmt.Sprintf(format, args...))
}

type result struct {
	verdict  string // "" = held
	timing   bool   // verdict depends on a wall-clock bound (confirmation rule applies)
	starved  bool   // a timing verdict was dropped because this process did not get the CPU
	classes  []string
	nontriv  bool
	observed Observed
}

var (
	poolMu sync.Mutex
	shared *pool
)

func debugf(format string, a ...any) {
	if os.Getenv("VERIF_C25_DEBUG") != "" {
		fmt.Printf("c25: "+format+"\n", a...)
	}
}

const (
	livenessBound  = 20 * time.Second
	stuckSilence   = 10 * time.Second
	quietWindow    = 1500 * time.Millisecond
	leakFirstWait  = 5 * time.Second
	leakConfirm    = 25 * time.Second
	closeBound     = 15 * time.Second
	connectTimeout = 5 * time.Second
)

type runner struct {
	c       Case
	p       *pool
	net     *faultNet
	cl      *opcua.Client
	obs     *observer
	classes map[string]bool
	readers sync.WaitGroup
	rmu     sync.Mutex
	hit     bool // a fault was triggered by a frame in flight
	infra   error
}

func (r *runner) class(format string, a ...any) {
	r.rmu.Lock()
	r.classes[fmt.Sprintf(format, a...)] = true
	r.rmu.Unlock()
}

func faultClass(f Fault) string {
	switch f.Kind {
	case "rst", "fin":
		if f.After {
			return f.Kind + "-behind-frame"
		}
		return f.Kind
	case "cut":
		return "cut+" + f.End
	case "blackhole":
		return "blackhole-" + f.Dir
	case "restart":
		if f.Ms == 0 {
			return "restart-quick"
		}
		return "restart-after-outage"
	}
	return f.Kind
}

func durClass(f Fault, timeoutMs int) string {
	switch f.Kind {
	case "blackhole", "stall", "refuse":
		switch {
		case f.Ms < timeoutMs-100:
			return "<timeout"
		case f.Ms <= timeoutMs+400:
			return "~timeout"
		}
		return ">timeout"
	}
	return ""
}

// read issues one Read of the test variable.
func (r *runner) read(timeout time.Duration) (ua.StatusCode, error) {
	ctx, cancel := context.WithTimeout(context.Background(), timeout)
	defer cancel()
	r.p.mu.Lock()
	nid := r.p.active.NodeID(varName)
	r.p.mu.Unlock()
	dv, err := stack.ReadValue(ctx, r.cl, nid)
	if err != nil {
		return 0, err
	}
	return dv.Status, nil
}

func readClass(st ua.StatusCode, err error) string {
	switch {
	case err == nil && st == ua.StatusOK:
		return "ok"
	case err == nil:
		return "bad-status"
	case errors.Is(err, ua.StatusBadTimeout):
		return "BadTimeout"
	case errors.Is(err, ua.StatusBadServerNotConnected):
		return "BadServerNotConnected"
	case strings.Contains(err.Error(), "EOF"):
		return "EOF"
	case errors.Is(err, context.DeadlineExceeded):
		return "ctx-deadline"
	case errors.Is(err, ua.StatusBadSessionIDInvalid), errors.Is(err, ua.StatusBadSessionNotActivated), errors.Is(err, ua.StatusBadSessionClosed):
		return "BadSession*"
	case errors.Is(err, ua.StatusBadSecureChannelIDInvalid):
		return "BadSecureChannelIdInvalid"
	}
	return "other-error"
}

// readsUntil keeps one Read at a time in flight until the trigger fires or
// the time is up.
func (r *runner) readsUntil(tr *trigger, max time.Duration) (fired, bool) {
	deadline := time.Now().Add(max)
	for {
		done := make(chan struct{})
		r.readers.Add(1)
		go func() {
			defer r.readers.Done()
			defer close(done)
			st, err := r.read(3 * time.Second)
			r.rmu.Lock()
			r.classes["read-around-a-fault:"+readClass(st, err)] = true
			r.rmu.Unlock()
		}()
		select {
		case fi := <-tr.ch:
			return fi, true
		case <-done:
		}
		select {
		case fi := <-tr.ch:
			return fi, true
		default:
		}
		if time.Now().After(deadline) {
			return fired{}, false
		}
		time.Sleep(20 * time.Millisecond)
	}
}

// finish performs the part of a fault that the hook cannot do itself. wasFired
// tells whether the hook has already started it on a frame. async: do not wait
// for the end of the outage (heal ends it).
func (r *runner) finish(f Fault, wasFired bool, async bool) {
	n := r.net
	wait := func(d time.Duration) {
		if !async && d > 0 {
			time.Sleep(d)
		}
	}
	ms := time.Duration(f.Ms) * time.Millisecond
	switch f.Kind {
	case "rst":
		n.kill(false)
	case "fin":
		n.kill(true)
	case "cut":
		if wasFired {
			// let the pump write the partial frame first
			time.Sleep(5 * time.Millisecond)
		}
		n.kill(f.End == "fin")
	case "blackhole":
		if !wasFired {
			n.setMode(modeBlackhole, dirMask(f.Dir), ms)
		}
		wait(n.remaining())
	case "stall":
		if !wasFired {
			n.setMode(modeStall, [2]bool{true, true}, ms)
		}
		wait(n.remaining())
	case "refuse":
		n.tap.Refuse(true)
		n.kill(false)
		wait(ms)
		if !async {
			n.tap.Refuse(false)
		}
	case "restart":
		n.tap.Refuse(true)
		n.kill(false)
		old, err := r.p.swap()
		if err != nil {
			r.infra = infra("standby server: %v", err)
			n.tap.Refuse(false)
			return
		}
		n.tap.SetUpstream(r.p.addr())
		n.event("server restarted: upstream is a fresh instance")
		go old.Close()
		wait(ms)
		if !async {
			n.tap.Refuse(false)
		}
	}
}

func (r *runner) step(i int, st Step, async bool) {
	fc := faultClass(st.Fault)
	if d := durClass(st.Fault, r.c.TimeoutMs); d != "" {
		r.class("duration:%s:%s", st.Fault.Kind, d)
	}
	switch st.At {
	case "idle":
		placement := "idle"
		if r.cl.State() != opcua.Connected {
			placement = "idle(while-not-Connected)"
		}
		r.class("fault:%s@%s", fc, placement)
		r.finish(st.Fault, false, async)
	case "req", "resp":
		lb := "c2s:Read"
		if st.At == "resp" {
			lb = "s2c:Read"
		}
		tr := r.net.arm(lb, false, st.Fault)
		fi, ok := r.readsUntil(tr, 2*time.Second)
		if !ok {
			r.net.disarm()
			r.class("fault:%s@%s(trigger-missed:applied-at-once)", fc, st.At)
		} else {
			r.hit = true
			r.class("fault:%s@%s", fc, st.At)
			_ = fi
		}
		r.finish(st.Fault, ok, async)
	case "reconnect":
		tr := r.net.arm(st.On, true, st.Fault)
		if strings.HasSuffix(st.On, ":CreateSession") || strings.HasSuffix(st.On, ":TransferSubscriptions") {
			// these frames only occur when the session is gone: the reconnect is
			// provoked by a (quick) server restart
			r.class("reconnect-provoked-by:restart")
			r.finish(Fault{Kind: "restart"}, false, false)
			if r.infra != nil {
				return
			}
		} else if r.cl.State() == opcua.Connected {
			// provoke a reconnect
			r.class("reconnect-provoked-by:rst")
			r.net.kill(false)
		}
		select {
		case <-tr.ch:
			r.hit = true
			r.class("fault:%s@reconnect", fc)
			r.class("reconnect-frame:%s", st.On)
			r.class("kind-x-frame:%s@reconnect:%s", st.Fault.Kind, st.On)
			r.finish(st.Fault, true, async)
		case <-time.After(3 * time.Second):
			r.net.disarm()
			// the frame may have fired in the meantime
			select {
			case <-tr.ch:
				r.hit = true
				r.class("fault:%s@reconnect", fc)
				r.finish(st.Fault, true, async)
			default:
				r.class("fault:%s@reconnect(trigger-missed:applied-at-once)", fc)
				r.class("reconnect-frame-missed:%s", st.On)
				r.finish(st.Fault, false, async)
			}
		}
	}
}

// control tells whether the environment is fit for a client configured like
// the one under test: a fresh client (same RequestTimeout and DialTimeout, no
// auto-reconnect) connects to the active server through a healthy proxy of its
// own and reads five times. If that fails, a client that keeps trying without
// success says nothing about the client.
func (r *runner) control() error {
	r.p.mu.Lock()
	nid := r.p.active.NodeID(varName)
	r.p.mu.Unlock()
	fn, err := newFaultNet(r.p.addr())
	if err != nil {
		return err
	}
	defer fn.tap.Close()
	c, err := opcua.NewClient("opc.tcp://"+fn.tap.Addr(), opcua.SecurityMode(ua.MessageSecurityModeNone), opcua.AutoReconnect(false),
		opcua.RequestTimeout(time.Duration(r.c.TimeoutMs)*time.Millisecond), opcua.DialTimeout(time.Second))
	if err != nil {
		return err
	}
	ctx, cancel := context.WithTimeout(context.Background(), connectTimeout)
	err = c.Connect(ctx)
	cancel()
	defer func() {
		ctx, cancel := context.WithTimeout(context.Background(), 3*time.Second)
		c.Close(ctx)
		cancel()
	}()
	if err != nil {
		return err
	}
	for i := 0; i < 5; i++ {
		ctx, cancel := context.WithTimeout(context.Background(), 3*time.Second)
		dv, err := stack.ReadValue(ctx, c, nid)
		cancel()
		if err != nil {
			return err
		}
		if dv.Status != ua.StatusOK {
			return dv.Status
		}
	}
	return nil
}

func sortedGoroutines(m map[int]string) []string {
	var ids []int
	for id := range m {
		ids = append(ids, id)
	}
	sort.Ints(ids)
	var out []string
	for _, id := range ids {
		out = append(out, fmt.Sprintf("goroutine %d %s", id, m[id]))
	}
	return out
}

// execute runs the case once. fresh = use a server pair of its own.
func execute(c Case, fresh bool) (res result, err error) {
	if c.Burst > 0 {
		return executeBurst(c, fresh)
	}
	poolMu.Lock()
	defer poolMu.Unlock()
	var p *pool
	if fresh {
		if p, err = newPool(); err != nil {
			return res, infra("server: %v", err)
		}
		defer p.close()
	} else {
		if shared == nil {
			if shared, err = newPool(); err != nil {
				shared = nil
				return res, infra("server: %v", err)
			}
		}
		p = shared
		defer func() {
			if err != nil && shared != nil {
				shared.close()
				shared = nil
			}
		}()
	}

	r := &runner{c: c, p: p, classes: map[string]bool{}}
	fn, e := newFaultNet(p.addr())
	if e != nil {
		return res, infra("tap: %v", e)
	}
	r.net = fn
	defer fn.tap.Close()

	fail := func(timing bool, format string, a ...any) {
		if res.verdict == "" {
			res.verdict = fmt.Sprintf(format, a...)
			res.timing = timing
		}
	}

	baseline := clientGoroutines()
	obs, oopts := newObserver(c.Observer)
	r.obs = obs
	defer obs.close()
	opts := append([]opcua.Option{
		opcua.SecurityMode(ua.MessageSecurityModeNone),
		opcua.AutoReconnect(true),
		opcua.ReconnectInterval(time.Duration(c.IntervalMs) * time.Millisecond),
		opcua.RequestTimeout(time.Duration(c.TimeoutMs) * time.Millisecond),
		opcua.DialTimeout(time.Second),
	}, oopts...)
	cl, e := opcua.NewClient("opc.tcp://"+fn.tap.Addr(), opts...)
	if e != nil {
		return res, infra("NewClient: %v", e)
	}
	r.cl = cl
	if s := cl.State(); s != opcua.Closed {
		fail(false, "State() of a new client is %d, not Closed", s)
	}

	// ---- first connect, possibly under a fault
	var connTrig *trigger
	if c.Connect != nil {
		connTrig = fn.arm(c.Connect.On, false, c.Connect.Fault)
	}
	connErr := make(chan error, 1)
	go func() {
		ctx, cancel := context.WithTimeout(context.Background(), connectTimeout)
		defer cancel()
		connErr <- cl.Connect(ctx)
	}()
	var cerr error
	gotConn := false
	if connTrig != nil {
		fc := faultClass(c.Connect.Fault)
		select {
		case <-connTrig.ch:
			r.hit = true
			r.class("fault:%s@connect", fc)
			r.class("connect-frame:%s", c.Connect.On)
			r.class("kind-x-frame:%s@connect:%s", c.Connect.Fault.Kind, c.Connect.On)
			if d := durClass(c.Connect.Fault, c.TimeoutMs); d != "" {
				r.class("duration:%s:%s", c.Connect.Fault.Kind, d)
			}
			r.finish(c.Connect.Fault, true, false)
		case cerr = <-connErr:
			gotConn = true
			fn.disarm()
			r.class("fault:%s@connect(trigger-missed)", fc)
		}
	}
	if !gotConn {
		hbConnect := starve.Begin()
		select {
		case cerr = <-connErr:
		case <-time.After(connectTimeout + 15*time.Second):
			// Connect got a context with a deadline and every request has a timeout
			if w := hbConnect.Settle(); 10*w > connectTimeout {
				res.starved = true
			} else {
				res.observed.Goroutines = sortedGoroutines(clientGoroutines())
				fail(true, "Connect(ctx with a %v deadline) has not returned %v after the deadline", connectTimeout, 15*time.Second)
			}
			fn.heal()
			fn.kill(false)
			cerr = <-connErr
		}
	}
	if r.infra != nil {
		return res, r.infra
	}
	fn.disarm()

	connected := cerr == nil
	if connected {
		obs.mark(markConnectOK)
		r.class("connect:ok")
		if s := cl.State(); s != opcua.Connected && c.Connect == nil {
			fail(false, "Connect returned nil on a healthy network but State() is %s", stateNames[int(s)])
		}
	} else {
		obs.mark(markConnectErr)
		r.class("connect:failed")
		if c.Connect == nil {
			// nothing was injected: the environment is not fit (machine too busy
			// for the request timeout), not the client
			ctx, cancel := context.WithTimeout(context.Background(), 5*time.Second)
			cl.Close(ctx)
			cancel()
			return res, fmt.Errorf("%w: Connect on a healthy network: %v", errEnv, cerr)
		}
		debugf("connect failed: %v", cerr)
		// the client is not connected: it must not claim to be, not even after a while
		time.Sleep(300 * time.Millisecond)
		if s := cl.State(); s == opcua.Connected {
			fail(false, "Connect returned the error %q but State() is Connected 300 ms later", cerr)
		}
		r.class("state-after-failed-connect:%s", stateNames[int(cl.State())])
	}

	// ---- fault script
	early := false
	if connected {
		for i, st := range c.Steps {
			last := i == len(c.Steps)-1
			r.step(i, st, last && c.CloseEarly)
			if r.infra != nil {
				break
			}
			if d := time.Duration(st.PauseMs)*time.Millisecond + time.Duration(st.PauseUs)*time.Microsecond; d > 0 {
				time.Sleep(d)
			}
			if s := int(cl.State()); s < 0 || s > 4 {
				fail(false, "State() returned the undocumented value %d", s)
			}
		}
		early = c.CloseEarly
		if early && c.CloseOn != "" && r.infra == nil {
			tr := fn.arm(c.CloseOn, true, Fault{Kind: "signal"})
			if cl.State() == opcua.Connected {
				fn.kill(false)
			}
			select {
			case <-tr.ch:
				r.hit = true
				r.class("close-on-reconnect-frame:%s", c.CloseOn)
				time.Sleep(time.Duration(c.CloseDelayUs) * time.Microsecond)
			case <-time.After(3 * time.Second):
				fn.disarm()
				r.class("close-on-reconnect-frame(frame-not-seen)")
			}
		}
	}
	if r.infra != nil {
		fn.heal()
		ctx, cancel := context.WithTimeout(context.Background(), 5*time.Second)
		cl.Close(ctx)
		cancel()
		return res, r.infra
	}

	// ---- heal and liveness
	if connected && !early {
		fn.heal()
		obs.mark(markHeal)
		hb := starve.Begin()
		t0 := time.Now()
		var lastErr string
		for {
			st, e := r.read(2 * time.Second)
			if e == nil && st == ua.StatusOK && cl.State() == opcua.Connected {
				d := time.Since(t0)
				switch {
				case d < 100*time.Millisecond:
					r.class("recovered-in:<100ms")
				case d < time.Second:
					r.class("recovered-in:<1s")
				case d < 5*time.Second:
					r.class("recovered-in:1-5s")
				default:
					r.class("recovered-in:5-20s")
				}
				break
			}
			if e != nil {
				lastErr = e.Error()
			} else {
				lastErr = fmt.Sprintf("status %v, State() %s", st, stateNames[int(cl.State())])
			}
			if time.Since(t0) > livenessBound {
				w := hb.Settle()
				idle := fn.idleFor()
				stateNow := stateNames[int(cl.State())]
				res.observed.Goroutines = sortedGoroutines(clientGoroutines())
				switch {
				case idle >= stuckSilence && 10*w <= stuckSilence:
					// the client does nothing at all: no connection attempt reached
					// the proxy and no frame came back for >= 10 s although every wait
					// of the configuration ends within 1.25 s
					fail(true, "%v after the network healed (proxy forwards, server up) the client has not come back and has stopped trying: no connection attempt and no frame from the server for %v, State() is %s, last Read: %s", livenessBound, idle.Round(time.Second), stateNow, lastErr)
				case idle >= stuckSilence:
					res.starved = true
				case 10*w > time.Duration(c.TimeoutMs)*time.Millisecond:
					// the client keeps trying; this process is too slow for its timeouts
					res.starved = true
				default:
					if ce := r.control(); ce != nil {
						debugf("control client failed: %v", ce)
						res.starved = true
						r.class("liveness-failed-but-control-client-failed-too(inconclusive)")
						break
					}
					fail(true, "%v after the network healed (proxy forwards, server up and serving a control client with the same timeouts) the client keeps trying but has not come back: State() is %s, last Read: %s", livenessBound, stateNow, lastErr)
				}
				break
			}
			time.Sleep(25 * time.Millisecond)
		}
	}

	// ---- Close
	obs.mark(markCloseCall)
	closed := make(chan error, 1)
	hbClose := starve.Begin()
	go func() {
		ctx, cancel := context.WithTimeout(context.Background(), 5*time.Second)
		defer cancel()
		closed <- cl.Close(ctx)
	}()
	select {
	case <-closed:
	case <-time.After(closeBound):
		if w := hbClose.Settle(); 10*w > closeBound {
			res.starved = true
		} else {
			if res.observed.Goroutines == nil {
				res.observed.Goroutines = sortedGoroutines(clientGoroutines())
			}
			fail(true, "Close(ctx with a 5 s deadline) has not returned after %v", closeBound)
		}
		fn.heal()
		fn.kill(false)
		<-closed
	}
	obs.mark(markCloseRet)
	tClose := time.Now()
	if s := cl.State(); s != opcua.Closed {
		r.class("State()-not-Closed-right-after-Close(within-grace)")
	}
	if early {
		// whatever the client still does must become visible
		fn.heal()
		r.class("close:during-outage-or-reconnect")
	} else {
		r.class("close:after-heal")
	}
	// the harness' own readers
	rd := make(chan struct{})
	go func() { r.readers.Wait(); close(rd) }()
	select {
	case <-rd:
	case <-time.After(6 * time.Second):
		r.class("harness-read-still-running-6s-after-close")
	}

	// no new connection attempt: a connect() that began before Close returned
	// may be accepted a moment later, so the count starts after a grace period
	hbGrace := starve.Begin()
	time.Sleep(200 * time.Millisecond)
	// the proxy's accept loop is a goroutine of this process: give it 10 x the
	// wake-up lateness the heartbeats of this process see
	for w := hbGrace.Settle(); 10*w > time.Since(tClose) && time.Since(tClose) < 5*time.Second; w = hbGrace.Settle() {
		time.Sleep(100 * time.Millisecond)
	}
	grace := time.Since(tClose)
	acc0 := fn.tap.Accepted()
	quietEnd := time.Now().Add(quietWindow)
	graceNow := max(closeGrace, 10*hbGrace.Worst())
	for time.Now().Before(quietEnd) {
		if s := cl.State(); s != opcua.Closed && time.Since(tClose) > graceNow {
			fail(false, "State() is %s %v after Close returned", stateNames[int(s)], time.Since(tClose).Round(time.Millisecond))
		}
		time.Sleep(20 * time.Millisecond)
	}
	if acc1 := fn.tap.Accepted(); acc1 != acc0 {
		fail(false, "the proxy accepted %d new connection(s) between %v and %v after Close had returned", acc1-acc0, grace.Round(time.Millisecond), (grace + quietWindow).Round(time.Millisecond))
	}

	// goroutines
	leaked := func() map[int]string {
		cur := clientGoroutines()
		for id := range baseline {
			delete(cur, id)
		}
		return cur
	}
	lk := leaked()
	for len(lk) > 0 && time.Since(tClose) < leakFirstWait {
		time.Sleep(50 * time.Millisecond)
		lk = leaked()
	}
	if len(lk) > 0 {
		// every legitimate wait of this configuration ends within about
		// RequestTimeout + 250 ms or DialTimeout (1 s): wait 20 x that
		first := lk
		for len(lk) > 0 && time.Since(tClose) < leakConfirm {
			time.Sleep(200 * time.Millisecond)
			lk = leaked()
		}
		still := map[int]string{}
		for id, d := range lk {
			if _, ok := first[id]; ok {
				still[id] = d
			}
		}
		if w := hbGrace.Settle(); len(still) > 0 && 10*w > leakConfirm {
			res.starved = true
		} else if len(still) > 0 {
			gs := sortedGoroutines(still)
			res.observed.Goroutines = gs
			fail(false, "%d client-side gopcua goroutine(s) that did not exist before NewClient are still running %v after Close returned: %s", len(still), time.Since(tClose).Round(time.Second), strings.Join(gs, " || "))
		} else {
			r.class("goroutines-gone-only-after-5s")
		}
	}
	if s := cl.State(); s != opcua.Closed {
		fail(false, "State() is %s %v after Close returned", stateNames[int(s)], time.Since(tClose).Round(time.Millisecond))
	}

	// ---- the reported history
	obs.mu.Lock()
	obs.drainLocked()
	for _, sl := range []*stateLog{obs.fn, obs.ch} {
		if sl == nil {
			continue
		}
		v, late := judgeLog(sl, graceNow)
		if late > 0 {
			r.class("non-Closed-report-within-grace-after-Close")
		}
		if v != "" {
			if res.verdict == "" || res.timing {
				// a history verdict outranks a timing verdict: it needs no bound
				res.verdict, res.timing = v, false
			}
		}
	}
	if obs.fn != nil {
		res.observed.StatesFunc = renderLog(obs.fn.log)
	}
	if obs.ch != nil {
		res.observed.StatesChan = renderLog(obs.ch.log)
	}
	// outcome classes from the history
	var hist []int
	if obs.fn != nil {
		hist = obs.fn.log
	} else {
		hist = obs.ch.log
	}
	obs.mu.Unlock()
	cycles := 0
	for i, s := range hist {
		if s == int(opcua.Connected) && i > 0 {
			for j := i - 1; j >= 0; j-- {
				if hist[j] == int(opcua.Connected) {
					break
				}
				if hist[j] == int(opcua.Reconnecting) {
					cycles++
					break
				}
			}
		}
	}
	switch {
	case !connected:
		r.class("outcome:connect-failed")
	case early:
		r.class("outcome:closed-early")
	case cycles == 0:
		r.class("outcome:recovered-without-reconnect")
	case cycles == 1:
		r.class("outcome:recovered-after-1-reconnect")
	case cycles <= 3:
		r.class("outcome:recovered-after-2-3-reconnects")
	default:
		r.class("outcome:recovered-after->3-reconnects")
	}
	if connected {
		evs := strings.Join(fn.eventLog(), "\n")
		if strings.Count(evs, "c2s:CreateSession") > 1 {
			r.class("session:recreated")
		} else if cycles > 0 {
			r.class("session:restored-only")
		}
	}
	r.class("observer:%s", c.Observer)
	r.class("steps=%d", len(c.Steps))
	res.observed.Verdict = res.verdict
	res.observed.Events = fn.eventLog()
	if n := len(res.observed.Events); n > 120 {
		res.observed.Events = append(append([]string{}, res.observed.Events[:40]...), append([]string{"..."}, res.observed.Events[n-80:]...)...)
	}
	res.nontriv = r.hit
	r.rmu.Lock()
	for k := range r.classes {
		res.classes = append(res.classes, k)
	}
	r.rmu.Unlock()
	sort.Strings(res.classes)
	if res.starved {
		res.classes = append(res.classes, "starved(timing-verdict-dropped)")
	}
	return res, nil
}

// ---------------------------------------------------------------------------
// verdict with confirmation (DESIGN 3.4)

func decide(c *Case, log func(string, ...any)) (msg string, res result, err error) {
	for try := 0; ; try++ {
		res, err = execute(*c, false)
		if !errors.Is(err, errEnv) {
			break
		}
		debugf("%v", err)
		if try == 2 {
			// no verdict: counted, never a failure
			rec.Inconclusive()
			return "", result{classes: []string{"skipped(environment-not-fit:healthy-connect-failed-3x)"}}, nil
		}
		time.Sleep(time.Second)
	}
	if err != nil || res.verdict == "" {
		return "", res, err
	}
	obs := res.observed
	if !res.timing {
		c.Observed = &obs
		return res.verdict, res, nil
	}
	for i := 0; i < 2; i++ {
		r2, e2 := execute(*c, true)
		if e2 != nil || r2.verdict == "" || r2.starved {
			cj, _ := json.Marshal(c)
			oj, _ := json.Marshal(obs)
			fmt.Printf("C25 INCONCLUSIVE first run: %s\n  confirmation run %d: verdict %q err %v\n  observed: %s\n  case: %s\n", res.verdict, i+1, r2.verdict, e2, oj, cj)
			rec.Inconclusive()
			res.classes = append(res.classes, "inconclusive(confirmation-not-3/3)")
			return "", res, nil
		}
		obs.Others = append(obs.Others, r2.verdict)
	}
	c.Observed = &obs
	return res.verdict + " (confirmed 3/3, the re-runs on fresh servers)", res, nil
}

func TestLifecycle(t *testing.T) {
	rec.Assume("trusted base: netx.Tap as the network (faults are what a TCP peer / middlebox can do: reset, close, truncate, stop forwarding, forward late, refuse), pkg/stack servers, runtime.Stack for goroutines; a server restart is a switch of the proxy's upstream to a fresh server instance (never seen the client) plus a reset of the old instance's connections and its shutdown")
	rec.Assume("oracle is the minimal machine of the five comments in connstate.go; which transitions happen in between (Disconnected, repeated Reconnecting) is not judged; after a failed Connect only 'State() is not Connected' is demanded")
	rec.Assume("timing: liveness bound 20 s after heal (typical recovery < 1 s), confirmed 3/3 on fresh servers with a control client and a heartbeat starvation gate; goroutine leak = still present 25 s after Close (longest legitimate wait 1.25 s); connection attempts counted from 200 ms to 1.7 s after Close")
	defer func() {
		poolMu.Lock()
		if shared != nil {
			shared.close()
			shared = nil
		}
		poolMu.Unlock()
	}()
	// one directed script per shard first: windows that the random scripts hit
	// only now and then
	var first []Case
	if sh, _ := ev.Shard(); os.Getenv("VERIF_C25_NO_DIRECTED") == "" {
		if sh < len(directed) {
			first = append(first, directed[sh])
		}
		// every shard: Close right behind the OPN response of a reconnect
		first = append(first, Case{IntervalMs: 50, TimeoutMs: 500, Observer: []string{"func", "chan", "both"}[sh%3],
			Steps: []Step{{At: "idle", Fault: Fault{Kind: "rst"}, PauseMs: 100}}, CloseEarly: true, CloseOn: "s2c:OPN", CloseDelayUs: 20 * (sh % 16)})
		// every shard: Close i*step after a reset, 16 clients, step 40 .. 160 us
		// (0 .. 0.6 ms up to 0 .. 2.4 ms: the reconnect handshake of an idle machine)
		first = append(first, Case{IntervalMs: 50, TimeoutMs: 500, Observer: []string{"func", "chan", "both"}[sh%3], Burst: 16, BurstStepUs: 40 + 8*(sh%16),
			Steps: []Step{{At: "idle", Fault: Fault{Kind: "rst"}}}, CloseEarly: true})
	}
	for _, c := range first {
		rec.Journal("TestLifecycle", c)
		msg, res, err := decide(&c, func(f string, a ...any) { t.Logf(f, a...) })
		rec.JournalDone("TestLifecycle")
		if err != nil {
			t.Fatalf("infrastructure failure (not a violation): %v", err)
		}
		if os.Getenv("VERIF_C25_DEBUG") != "" {
			cj, _ := json.Marshal(c)
			debugf("directed case %s\n   func[%s]\n   chan[%s]\n   verdict %q\n   classes %v", cj, res.observed.StatesFunc, res.observed.StatesChan, msg, res.classes)
		}
		cc := c
		cc.Observed = nil
		b, _ := json.Marshal(cc)
		rec.Case(res.nontriv, ev.Hash(b), append(res.classes, "directed-script")...)
		if msg != "" {
			if sig := knownSig(c, msg); sig == "" || !rec.Known(sig) {
				rec.Fail(t, "TestLifecycle", c, "%s", msg)
			}
		}
	}
	// rapid re-executes the final failing script to make sure it is reproducible.
	// A failure reported here was already re-executed (timing verdicts 3/3), and one
	// failing execution costs 25-80 s: a confirmed verdict is remembered per script.
	type failed struct {
		msg string
		c   Case
	}
	confirmed := map[uint64]failed{}
	rapid.Check(t, func(rt *rapid.T) {
		c := genCase(rt)
		key := func() uint64 { b, _ := json.Marshal(c); return ev.Hash(b) }()
		if f, ok := confirmed[key]; ok {
			rec.Fail(rt, "TestLifecycle", f.c, "%s", f.msg)
		}
		rec.Journal("TestLifecycle", c)
		msg, res, err := decide(&c, func(f string, a ...any) { rt.Logf(f, a...) })
		if msg != "" {
			confirmed[key] = failed{msg, c}
		}
		rec.JournalDone("TestLifecycle")
		if err != nil {
			t.Fatalf("infrastructure failure (not a violation): %v", err)
		}
		if os.Getenv("VERIF_C25_DEBUG") != "" {
			cj, _ := json.Marshal(c)
			debugf("case %s\n   func[%s]\n   chan[%s]\n   verdict %q\n   classes %v", cj, res.observed.StatesFunc, res.observed.StatesChan, msg, res.classes)
		}
		cc := c
		cc.Observed = nil
		b, _ := json.Marshal(cc)
		rec.Case(res.nontriv, ev.Hash(b), res.classes...)
		if res.nontriv && rec.WantSample() {
			rec.Sample(cc)
		}
		if msg != "" {
			if sig := knownSig(c, msg); sig != "" && rec.Known(sig) {
				return
			}
			rec.Fail(rt, "TestLifecycle", c, "%s", msg)
		}
	})
}

// directed scripts (one per shard, before the random ones)
var directed = []Case{
	// the ACK of a reconnect never arrives; the network heals later
	{IntervalMs: 50, TimeoutMs: 700, Observer: "func", Steps: []Step{{At: "reconnect", On: "c2s:HEL", Fault: Fault{Kind: "blackhole", Dir: "s2c", Ms: 2000}}}},
	// Close while a reconnect waits for its ACK
	{IntervalMs: 50, TimeoutMs: 700, Observer: "both", Steps: []Step{{At: "reconnect", On: "s2c:ACK", Fault: Fault{Kind: "blackhole", Dir: "both", Ms: 1700}}}, CloseEarly: true},
	// the connection dies with the last, tolerated request of a reconnect
	{IntervalMs: 100, TimeoutMs: 700, Observer: "func", Steps: []Step{{At: "reconnect", On: "s2c:TransferSubscriptions", Fault: Fault{Kind: "rst"}}}},
	// ... and right behind the last response of a reconnect that kept its session
	{IntervalMs: 100, TimeoutMs: 500, Observer: "chan", Steps: []Step{{At: "reconnect", On: "s2c:Read", Fault: Fault{Kind: "rst", After: true}}, {At: "reconnect", On: "s2c:Read", Fault: Fault{Kind: "fin", After: true}}}},
	// Close while the reconnect loop runs against a proxy that refuses
	{IntervalMs: 50, TimeoutMs: 500, Observer: "both", Steps: []Step{{At: "idle", Fault: Fault{Kind: "refuse", Ms: 2000}, PauseMs: 300}}, CloseEarly: true},
	// the first connect loses its connection after the monitor was started
	{IntervalMs: 50, TimeoutMs: 500, Observer: "both", Connect: &Step{At: "connect", On: "s2c:Read", Fault: Fault{Kind: "rst"}}, Steps: []Step{{At: "idle", Fault: Fault{Kind: "rst"}}}},
	// restart after an outage while a request is in flight, then a stalled OPN of the next reconnect
	{IntervalMs: 200, TimeoutMs: 1000, Observer: "chan", Steps: []Step{{At: "req", Fault: Fault{Kind: "restart", Ms: 1200}, PauseMs: 100}, {At: "reconnect", On: "c2s:OPN", Fault: Fault{Kind: "stall", Ms: 1100}}}},
	// Close right after a reset (the monitor is just starting to reconnect)
	{IntervalMs: 50, TimeoutMs: 500, Observer: "func", Steps: []Step{{At: "resp", Fault: Fault{Kind: "rst"}}}, CloseEarly: true},
}

// knownSig maps a failure to the signature of a known finding (input class +
// failure site); "" = none.
func knownSig(c Case, msg string) string {
	return ""
}

// TestReplay re-executes a saved script without rapid, 3 times.
func TestReplay(t *testing.T) {
	rp, err := ev.LoadReplay()
	if err != nil {
		t.Fatal(err)
	}
	if rp == nil {
		t.Skip("no VERIF_REPLAY")
	}
	var c Case
	if err := json.Unmarshal(rp.Case, &c); err != nil {
		t.Fatal(err)
	}
	c.Observed = nil
	fmt.Println("REPLAYED structured")
	defer func() {
		poolMu.Lock()
		if shared != nil {
			shared.close()
			shared = nil
		}
		poolMu.Unlock()
	}()
	for i := 0; i < 3; i++ {
		cc := c
		msg, res, err := decide(&cc, func(f string, a ...any) { fmt.Printf(f+"\n", a...) })
		if err != nil {
			t.Skipf("infrastructure failure (not a violation): %v", err)
		}
		fmt.Printf("run %d: func[%s] chan[%s] classes %v\n", i+1, res.observed.StatesFunc, res.observed.StatesChan, res.classes)
		if msg != "" {
			b, _ := json.MarshalIndent(cc.Observed, "", " ")
			t.Fatalf("property C25 violated (run %d): %s\n%s", i+1, msg, b)
		}
	}
	fmt.Println("3 re-executions held")
}
