// Package c08 decides property C08: secured chunks conform to the OPC UA Part 6
// wire layout.
//
// Oracle: verif/pkg/refcodec, an independent implementation of the Part 6 secure
// conversation layout on the Go standard library crypto (never uasc/uapolicy).
//
// Direction 1 (everything gopcua emits is accepted by the reference):
//   - TestKeyedChunks  symmetric MSG chunks produced by channelInstance.signAndEncrypt
//     for drawn nonces (hook uasc.VerifSymmetricChunk), parsed with the
//     reference's own P_SHA keys;
//   - TestWire         gopcua client <-> gopcua server over a recording tap: client
//     OPN request, server OPN response, client MSG/CLO chunks, server MSG
//     chunks; nonces are taken from the OPN bodies the reference decrypted
//     with the fixture private keys;
//   - TestRefClient / TestRefServer also verify every chunk gopcua sends back.
//
// Direction 2 (gopcua accepts what the reference produces and delivers the same
// message):
//   - TestRefClient    reference client -> gopcua server channel
//     (uacp.Listen + uasc.NewServerSecureChannel + Receive);
//   - TestRefServer    gopcua client channel (uacp.Dial + uasc.NewSecureChannel +
//     Open + SendRequest) -> reference server on a plain TCP listener.
//
// In direction 2 each end derives its keys from the nonces on its own, so an
// error made symmetrically by two gopcua peers (swapped secret/seed, padding
// rule, signature coverage) cannot cancel out.
package c08

import (
	"bytes"
	"context"
	"crypto/rand"
	"crypto/x509"
	"crypto/x509/pkix"
	"encoding/hex"
	"encoding/json"
	"errors"
	"fmt"
	"io"
	"math/big"
	"net"
	"sync"
	"sync/atomic"
	"testing"
	"time"

	"github.com/gopcua/opcua/ua"
	"github.com/gopcua/opcua/uacp"
	"github.com/gopcua/opcua/uapolicy"
	"github.com/gopcua/opcua/uasc"
	"pgregory.net/rapid"

	"verif/pkg/chanpair"
	"verif/pkg/ev"
	"verif/pkg/keys"
	"verif/pkg/netx"
	"verif/pkg/refcodec"
)

func TestMain(m *testing.M) { ev.Main(m) }

var rec = ev.For("C08", "rapid-generated policy(5) x mode(Sign|SignAndEncrypt) x client key x server key (1024/1536/2048 resp. 2048/3072/4096 as the policy allows, leaf or 2-certificate chain) x buffer sizes (8192..131072, boundaries around 8192 and 65535) x 1-3 request/response exchanges with body sizes {small, maxBody-1..maxBody+1, k*maxBody+-1, random up to ~3 chunks}; four harness forms: keyed (signAndEncrypt on drawn nonces), wire (gopcua<->gopcua sniffed), refclient (reference client -> gopcua server), refserver (gopcua client -> reference server); non-trivial = secured policy; distinct by hash of the whole case")

// ---------------------------------------------------------------------------
// case

type msgT struct {
	ReqLen    int   `json:"req_len"`              // payload bytes in the request (NodeID string)
	RespLen   int   `json:"resp_len"`             // payload bytes in the response (ByteString)
	ReqSplit  []int `json:"req_split,omitempty"`  // reference client: body bytes of the chunks before the last (-1 = as much as fits)
	RespSplit []int `json:"resp_split,omitempty"` // reference server: same for the response
}

type caseT struct {
	Kind        string `json:"kind"` // keyed | wire | refclient | refserver
	Policy      string `json:"policy"`
	Encrypt     bool   `json:"encrypt"`
	ClientBits  int    `json:"client_bits,omitempty"`
	ServerBits  int    `json:"server_bits,omitempty"`
	ClientChain bool   `json:"client_chain,omitempty"`
	ServerChain bool   `json:"server_chain,omitempty"`
	// buffers gopcua works with: the server side Acknowledge (a gopcua client
	// adopts it wholesale) and the values announced in the Hello
	SendBuf   uint32 `json:"send_buf,omitempty"`
	RecvBuf   uint32 `json:"recv_buf,omitempty"`
	HelloSend uint32 `json:"hello_send,omitempty"`
	HelloRecv uint32 `json:"hello_recv,omitempty"`
	ChannelID uint32 `json:"channel_id,omitempty"`
	TokenID   uint32 `json:"token_id,omitempty"`
	FirstSeq  uint32 `json:"first_seq,omitempty"`    // first sequence number of the reference end / initial number of the gopcua server
	FirstReq  uint32 `json:"first_req_id,omitempty"` // first request id of the requesting end
	Nonce     string `json:"nonce,omitempty"`        // hex, nonce of the reference end
	FullPad   bool   `json:"full_pad,omitempty"`     // reference pads a whole block when aligned (literal PaddingSize formula)
	Msgs      []msgT `json:"msgs,omitempty"`

	// keyed form
	ChunkSize   int    `json:"chunk_size,omitempty"`
	BodyLen     int    `json:"body_len,omitempty"`
	Fill        int    `json:"fill,omitempty"`
	LocalNonce  string `json:"local_nonce,omitempty"`
	RemoteNonce string `json:"remote_nonce,omitempty"`
	AsServer    bool   `json:"as_server,omitempty"`
}

func (c caseT) mode() refcodec.Mode {
	if c.Encrypt {
		return refcodec.ModeSignAndEncrypt
	}
	return refcodec.ModeSign
}

func (c caseT) modeName() string {
	if c.Encrypt {
		return "SignAndEncrypt"
	}
	return "Sign"
}

// outcome of one executed case
type outcome struct {
	viol    string // property violated: message
	infra   error  // the harness could not run the case (not a verdict)
	classes []string
}

func (o *outcome) class(format string, a ...any) {
	o.classes = append(o.classes, fmt.Sprintf(format, a...))
}

// ---------------------------------------------------------------------------
// fixtures

var secPolicies = []string{"Basic128Rsa15", "Basic256", "Basic256Sha256", "Aes128_Sha256_RsaOaep", "Aes256_Sha256_RsaPss"}

func keySizes(pol string) []int {
	p := refcodec.PolicyByURI(pol)
	var out []int
	for _, s := range []int{1024, 1536, 2048, 3072, 4096} {
		if s >= p.MinKeyBits && s <= p.MaxKeyBits {
			out = append(out, s)
		}
	}
	return out
}

var (
	chainMu    sync.Mutex
	chainCache = map[string]*keys.Pair{}
)

// pair returns fixture who/bits; with chain the certificate blob is a proper
// 2-certificate chain: a leaf for the same key issued by the (CA capable)
// fixture b2048 resp. a2048, followed by the issuer's certificate.
func pair(who string, bits int, chain bool) *keys.Pair {
	base := keys.Get(who, bits)
	if !chain {
		return base
	}
	chainMu.Lock()
	defer chainMu.Unlock()
	k := fmt.Sprintf("%s%d", who, bits)
	if p, ok := chainCache[k]; ok {
		return p
	}
	ca := keys.Get("b", 2048)
	if who == "b" {
		ca = keys.Get("a", 2048)
	}
	tmpl := &x509.Certificate{
		SerialNumber: big.NewInt(int64(bits) + 7),
		Subject:      pkix.Name{Organization: []string{"verif"}, CommonName: "verif-leaf-" + k},
		NotBefore:    base.X509.NotBefore,
		NotAfter:     base.X509.NotAfter,
		KeyUsage:     x509.KeyUsageDigitalSignature | x509.KeyUsageKeyEncipherment | x509.KeyUsageDataEncipherment | x509.KeyUsageContentCommitment,
		ExtKeyUsage:  []x509.ExtKeyUsage{x509.ExtKeyUsageServerAuth, x509.ExtKeyUsageClientAuth},
		URIs:         base.X509.URIs,
		DNSNames:     base.X509.DNSNames,
	}
	der, err := x509.CreateCertificate(rand.Reader, tmpl, ca.X509, &base.Key.PublicKey, ca.Key)
	if err != nil {
		panic(err)
	}
	leaf, err := x509.ParseCertificate(der)
	if err != nil {
		panic(err)
	}
	p := &keys.Pair{Who: who, Bits: bits, Key: base.Key, Cert: append(append([]byte(nil), der...), ca.Cert...), X509: leaf}
	chainCache[k] = p
	return p
}

func reqPayload(n, idx int) string {
	b := make([]byte, n)
	for i := range b {
		b[i] = 'a' + byte((i*7+idx*3)%26)
	}
	return string(b)
}

func respPayload(n, idx int) []byte {
	b := make([]byte, n)
	for i := range b {
		b[i] = byte(i*31 + idx*17 + 5)
	}
	return b
}

func readRequest(hdr *ua.RequestHeader, n, idx int) *ua.ReadRequest {
	return &ua.ReadRequest{RequestHeader: hdr, NodesToRead: []*ua.ReadValueID{{NodeID: ua.NewStringNodeID(1, reqPayload(n, idx)), AttributeID: ua.AttributeIDValue, DataEncoding: &ua.QualifiedName{}}}}
}

func readResponse(handle uint32, n, idx int) *ua.ReadResponse {
	return &ua.ReadResponse{ResponseHeader: refcodec.NewResponseHeader(handle),
		Results:         []*ua.DataValue{{EncodingMask: ua.DataValueValue, Value: ua.MustVariant(respPayload(n, idx))}},
		DiagnosticInfos: []*ua.DiagnosticInfo{}}
}

func reqPayloadOf(svc any) (string, bool) {
	rr, ok := svc.(*ua.ReadRequest)
	if !ok || rr == nil || len(rr.NodesToRead) != 1 || rr.NodesToRead[0].NodeID == nil {
		return "", false
	}
	return rr.NodesToRead[0].NodeID.StringID(), true
}

func respPayloadOf(svc any) ([]byte, bool) {
	rr, ok := svc.(*ua.ReadResponse)
	if !ok || rr == nil || len(rr.Results) != 1 || rr.Results[0].Value == nil {
		return nil, false
	}
	b, ok := rr.Results[0].Value.Value().([]byte)
	return b, ok
}

// overheads: encoded body length minus payload length
var (
	ovOnce        sync.Once
	reqOv, respOv int
)

func overheads() (int, int) {
	ovOnce.Do(func() {
		// the header a gopcua client writes (newRequestMessage): no AdditionalHeader
		h := &ua.RequestHeader{AuthenticationToken: ua.NewTwoByteNodeID(0), Timestamp: time.Unix(1700000000, 0), RequestHandle: 1, TimeoutHint: 10000}
		b, err := refcodec.EncodeService(readRequest(h, 10, 0))
		if err != nil {
			panic(err)
		}
		reqOv = len(b) - 10
		b, err = refcodec.EncodeService(readResponse(1, 10, 0))
		if err != nil {
			panic(err)
		}
		respOv = len(b) - 10
	})
	return reqOv, respOv
}

// ---------------------------------------------------------------------------
// generators

func genBuf(t *rapid.T, label string) uint32 {
	switch rapid.IntRange(0, 9).Draw(t, label+"Class") {
	case 0:
		return 8192
	case 1:
		return uint32(rapid.IntRange(8193, 8192+40).Draw(t, label))
	case 2, 3:
		return 65535
	case 4:
		return uint32(rapid.IntRange(65535-40, 65535+40).Draw(t, label))
	case 5:
		return uint32(rapid.SampledFrom([]int{65536, 100000, 131071, 131072}).Draw(t, label))
	case 6, 7:
		return uint32(rapid.IntRange(8192, 20000).Draw(t, label))
	}
	return uint32(rapid.IntRange(8192, 131072).Draw(t, label))
}

// genLen draws a payload length whose encoded body (payload + ov) sits in an
// interesting position relative to maxBody.
func genLen(t *rapid.T, label string, maxBody, ov int) int {
	var body int
	switch rapid.IntRange(0, 9).Draw(t, label+"Class") {
	case 0, 1, 2:
		body = ov + rapid.IntRange(0, 300).Draw(t, label)
	case 3:
		body = maxBody + rapid.IntRange(-2, 2).Draw(t, label)
	case 4:
		body = rapid.IntRange(2, 3).Draw(t, label+"K")*maxBody + rapid.IntRange(-2, 2).Draw(t, label)
	case 5:
		body = maxBody - rapid.IntRange(0, 40).Draw(t, label)
	case 6, 7:
		body = rapid.IntRange(ov, maxBody).Draw(t, label)
	default:
		body = rapid.IntRange(maxBody, 3*maxBody+maxBody/4).Draw(t, label)
	}
	if body < ov {
		body = ov
	}
	return body - ov
}

// genSplit draws the body sizes of the non-final chunks the reference sends.
func genSplit(t *rapid.T, label string, bodyLen, maxBody int) []int {
	var out []int
	rem := bodyLen
	for len(out) < 10 {
		if rem <= maxBody && rapid.IntRange(0, 2).Draw(t, label+"Stop") != 0 {
			break
		}
		if rem == 0 {
			break
		}
		var n int
		switch rapid.IntRange(0, 4).Draw(t, label+"Class") {
		case 0:
			n = 1
		case 1:
			n = rapid.IntRange(1, 64).Draw(t, label)
		case 2:
			n = rapid.IntRange(1, maxBody).Draw(t, label)
		default:
			n = -1
		}
		take := n
		if take < 0 || take > maxBody {
			take = maxBody
		}
		if take > rem {
			take = rem
		}
		out = append(out, n)
		rem -= take
	}
	return out
}

func genNonce(t *rapid.T, label string, n int) string {
	var b []byte
	switch rapid.IntRange(0, 5).Draw(t, label+"Class") {
	case 0:
		b = make([]byte, n) // all zero
	case 1:
		b = bytes.Repeat([]byte{0xff}, n)
	default:
		b = rapid.SliceOfN(rapid.Byte(), n, n).Draw(t, label)
	}
	return hex.EncodeToString(b)
}

func genChannel(t *rapid.T, kind string) caseT {
	c := caseT{Kind: kind}
	c.Policy = rapid.SampledFrom(secPolicies).Draw(t, "policy")
	c.Encrypt = rapid.Bool().Draw(t, "encrypt")
	ks := keySizes(c.Policy)
	c.ClientBits = rapid.SampledFrom(ks).Draw(t, "clientBits")
	c.ServerBits = rapid.SampledFrom(ks).Draw(t, "serverBits")
	c.ClientChain = rapid.IntRange(0, 5).Draw(t, "clientChain") == 0
	c.ServerChain = rapid.IntRange(0, 5).Draw(t, "serverChain") == 0
	pol := refcodec.PolicyByURI(c.Policy)
	reqOv, respOv := overheads()

	c.HelloSend, c.HelloRecv = genBuf(t, "helloSend"), genBuf(t, "helloRecv")
	switch kind {
	case "wire":
		// both gopcua ends work with the server's Acknowledge: chunks of up to
		// SendBuf bytes, frames of up to RecvBuf bytes accepted
		c.SendBuf = genBuf(t, "sendBuf")
		c.RecvBuf = c.SendBuf + uint32(rapid.SampledFrom([]int{0, 0, 1, 100, 70000}).Draw(t, "recvExtra"))
	case "refclient":
		// gopcua server: sends up to SendBuf, accepts up to RecvBuf; the reference
		// client announces a receive buffer that holds whatever the server sends
		c.SendBuf, c.RecvBuf = genBuf(t, "sendBuf"), genBuf(t, "recvBuf")
		if c.HelloRecv < c.SendBuf {
			c.HelloRecv = c.SendBuf
		}
	case "refserver":
		// the reference server revises both buffers to one value that does not
		// exceed what the client announced; the gopcua client adopts it
		x := genBuf(t, "ackBuf")
		if x > c.HelloSend {
			x = c.HelloSend
		}
		if x > c.HelloRecv {
			x = c.HelloRecv
		}
		c.SendBuf, c.RecvBuf = x, x
	}
	c.ChannelID = uint32(rapid.IntRange(1, 1<<31-1).Draw(t, "channelID"))
	c.TokenID = uint32(rapid.IntRange(1, 1<<31-1).Draw(t, "tokenID"))
	if c.TokenID == c.ChannelID {
		c.TokenID++
	}
	c.FirstSeq = uint32(rapid.IntRange(1, 1<<30).Draw(t, "firstSeq"))
	c.FirstReq = uint32(rapid.IntRange(1, 1<<30).Draw(t, "firstReq"))
	if kind != "wire" {
		c.Nonce = genNonce(t, "nonce", pol.NonceLen)
		c.FullPad = rapid.IntRange(0, 7).Draw(t, "fullPad") == 0
	}

	// size of the chunks each sender may produce
	gopcuaMax := refcodec.SymMaxBody(pol, c.mode(), int(c.SendBuf))
	refMax := refMaxBody(pol, c, int(c.RecvBuf)) // what the gopcua receiver accepts
	n := rapid.IntRange(1, 3).Draw(t, "msgs")
	for i := 0; i < n; i++ {
		var m msgT
		switch kind {
		case "wire":
			m.ReqLen = genLen(t, "reqLen", gopcuaMax, reqOv)
			m.RespLen = genLen(t, "respLen", gopcuaMax, respOv)
		case "refclient":
			m.ReqLen = genLen(t, "reqLen", refMax, reqOv+3) // the reference writes an AdditionalHeader
			m.ReqSplit = genSplit(t, "reqSplit", m.ReqLen+reqOv+3, refMax)
			m.RespLen = genLen(t, "respLen", gopcuaMax, respOv)
		case "refserver":
			m.ReqLen = genLen(t, "reqLen", gopcuaMax, reqOv)
			m.RespLen = genLen(t, "respLen", refMax, respOv)
			m.RespSplit = genSplit(t, "respSplit", m.RespLen+respOv, refMax)
		}
		c.Msgs = append(c.Msgs, m)
	}
	return c
}

// ---------------------------------------------------------------------------
// shared verification of what gopcua emitted

func sizeClass(body, maxBody int) string {
	switch {
	case body == 0:
		return "0"
	case body == maxBody:
		return "max"
	case body > maxBody:
		return ">max"
	case body >= maxBody-2:
		return "max-2..max-1"
	case body <= 300:
		return "small"
	}
	return "mid"
}

// channelClasses records the configuration classes of a channel case.
func channelClasses(o *outcome, tag string, pol *refcodec.Policy, c caseT) {
	o.class("%s/%s/%s", tag, pol.Name, c.modeName())
	o.class("%s/keys=c%d/s%d", tag, c.ClientBits, c.ServerBits)
	o.class("%s/%s/%s/c%d/s%d", tag, pol.Name, c.modeName(), c.ClientBits, c.ServerBits)
	if c.ClientChain || c.ServerChain {
		o.class("%s/cert-chain", tag)
	}
	if c.FullPad {
		o.class("%s/ref-pads-full-block-when-aligned", tag)
	}
	buf := func(n uint32) string {
		switch {
		case n == 8192:
			return "8192"
		case n < 8192+64:
			return "8193..8255"
		case n < 65535-40:
			return "8256..65494"
		case n < 65535:
			return "65495..65534"
		case n == 65535:
			return "65535"
		case n <= 65535+40:
			return "65536..65575"
		}
		return ">65575"
	}
	o.class("%s/gopcua-chunk-size=%s", tag, buf(c.SendBuf))
	if tag != "d1" {
		o.class("%s/ref-chunk-size=%s", tag, buf(c.RecvBuf))
	}
}

// checkOPN applies the checks that go beyond ParseAsymChunk's own.
func checkOPN(o *outcome, tag, what string, c *refcodec.Chunk, pol *refcodec.Policy, sender, receiver *keys.Pair) string {
	if c.ChunkType != 'F' {
		return fmt.Sprintf("%s: chunk type %q, OPN must be a single final chunk", what, c.ChunkType)
	}
	if c.PolicyURI != pol.URI {
		return fmt.Sprintf("%s: SecurityPolicyUri %q, channel uses %q", what, c.PolicyURI, pol.URI)
	}
	if !bytes.Equal(c.SenderCertificate, sender.Cert) {
		return fmt.Sprintf("%s: SenderCertificate (%d bytes) is not the sender's configured certificate (%d bytes)", what, len(c.SenderCertificate), len(sender.Cert))
	}
	if !c.Signed || !c.Encrypted {
		return fmt.Sprintf("%s: not signed and encrypted", what)
	}
	if c.ExtraPaddingSize != (receiver.Bits > 2048) {
		return fmt.Sprintf("%s: ExtraPaddingSize present=%v with a %d bit receiver key", what, c.ExtraPaddingSize, receiver.Bits)
	}
	if len(c.Signature) != sender.Bits/8 || c.CipherBlock != receiver.Bits/8 {
		return fmt.Sprintf("%s: signature %d bytes / cipher block %d bytes, keys are %d / %d bit", what, len(c.Signature), c.CipherBlock, sender.Bits, receiver.Bits)
	}
	maxPlain := pol.AsymPlainBlock(&receiver.Key.PublicKey)
	cls := "max"
	for _, pb := range c.PlainBlocks {
		if pb != maxPlain {
			cls = fmt.Sprintf("key-%d", receiver.Bits/8-pb)
		}
	}
	o.class("%s/opn-plain-block=%s(%s)", tag, cls, pol.Name)
	o.class("%s/opn-extra-padding=%v", tag, c.ExtraPaddingSize)
	o.class("%s/opn-blocks=%d", tag, len(c.PlainBlocks))
	return ""
}

func refErr(err error) (*refcodec.Error, bool) {
	var e *refcodec.Error
	ok := errors.As(err, &e)
	return e, ok
}

// ---------------------------------------------------------------------------
// form 1: keyed symmetric chunks

func genKeyed(t *rapid.T) caseT {
	c := caseT{Kind: "keyed"}
	c.Policy = rapid.SampledFrom(secPolicies).Draw(t, "policy")
	c.Encrypt = rapid.Bool().Draw(t, "encrypt")
	pol := refcodec.PolicyByURI(c.Policy)
	c.ChunkSize = int(genBuf(t, "chunkSize"))
	maxBody := refcodec.SymMaxBody(pol, c.mode(), c.ChunkSize)
	switch rapid.IntRange(0, 5).Draw(t, "bodyClass") {
	case 0:
		c.BodyLen = rapid.IntRange(0, 70).Draw(t, "bodyLen")
	case 1:
		c.BodyLen = maxBody - rapid.IntRange(0, 34).Draw(t, "bodyLen")
	case 2:
		c.BodyLen = maxBody
	default:
		c.BodyLen = rapid.IntRange(0, maxBody).Draw(t, "bodyLen")
	}
	c.Fill = rapid.IntRange(0, 255).Draw(t, "fill")
	c.LocalNonce = genNonce(t, "localNonce", pol.NonceLen)
	c.RemoteNonce = genNonce(t, "remoteNonce", pol.NonceLen)
	c.AsServer = rapid.Bool().Draw(t, "asServer")
	return c
}

func runKeyed(c caseT) (o outcome) {
	pol := refcodec.PolicyByURI(c.Policy)
	local, _ := hex.DecodeString(c.LocalNonce)
	remote, _ := hex.DecodeString(c.RemoteNonce)
	umode := ua.MessageSecurityMode(c.mode())
	res, err := uasc.VerifSymmetricChunk(pol.URI, umode, c.ChunkSize, c.BodyLen, byte(c.Fill), local, remote)
	if err != nil {
		o.infra = fmt.Errorf("VerifSymmetricChunk: %w", err)
		return
	}
	// the instance was built with Symmetric(local, remote): it is the client if
	// local is the client nonce, the server if local is the server nonce
	var sendKeys *refcodec.Keys
	if c.AsServer {
		_, sendKeys = refcodec.DeriveKeys(pol, remote, local)
	} else {
		sendKeys, _ = refcodec.DeriveKeys(pol, local, remote)
	}
	ch, err := refcodec.ParseSymChunk(res.Chunk, pol, c.mode(), sendKeys)
	if err != nil {
		o.viol = fmt.Sprintf("reference cannot verify the MSG chunk gopcua built: %v", err)
		return
	}
	want := make([]byte, c.BodyLen)
	for i := range want {
		want[i] = byte(c.Fill) + byte(24+i)
	}
	if !bytes.Equal(ch.Body, want) {
		o.viol = fmt.Sprintf("reference recovers a different body (%d bytes, want %d)", len(ch.Body), len(want))
		return
	}
	if ch.SecureChannelID != 7 || ch.TokenID != 9 || ch.SequenceNumber != 1 || ch.RequestID != 1 || ch.ChunkType != 'F' || ch.MessageType != "MSG" {
		o.viol = fmt.Sprintf("header fields read by the reference differ: %s%c channel %d token %d seq %d req %d", ch.MessageType, ch.ChunkType, ch.SecureChannelID, ch.TokenID, ch.SequenceNumber, ch.RequestID)
		return
	}
	maxBody := refcodec.SymMaxBody(pol, c.mode(), c.ChunkSize)
	o.class("keyed/%s/%s", pol.Name, c.modeName())
	o.class("keyed/body=%s", sizeClass(c.BodyLen, maxBody))
	if c.Encrypt {
		o.class("keyed/padding=%d", ch.PaddingSize)
	}
	return
}

func TestKeyedChunks(t *testing.T) {
	rec.Assume("oracle = verif/pkg/refcodec (Part 6 layout, RFC 5246 P_hash, Go stdlib crypto); self-tested by TestReference against the TLS 1.2 P_SHA256 vector, the P_SHA1 vector of uapolicy/securitypolicy_test.go and by build/parse/tamper round trips")
	rapid.Check(t, func(t *rapid.T) {
		c := genKeyed(t)
		judge(t, "TestKeyedChunks", c, journaled("TestKeyedChunks", c, runKeyed))
	})
}

// journaled runs the case with a journal entry around it, so that a crash of
// the process inside gopcua (a panic on a goroutine the harness does not own)
// names the case.
func journaled(test string, c caseT, f func(caseT) outcome) outcome {
	rec.Journal(test, c)
	o := f(c)
	// a case the harness could not run (a timeout on a saturated machine, a
	// port clash) is run again before it is given up
	for i := 0; i < 2 && o.infra != nil && o.viol == ""; i++ {
		o = f(c)
	}
	rec.JournalDone(test)
	return o
}

var executed, noVerdict atomic.Int64

// judge records the case and fails on a violation. A case that could not be run
// three times in a row is counted as inconclusive and skipped (a wall-clock hit
// is never a violation); if that happens to more than a handful of cases the
// step fails without a replay file, which the driver reports as an
// infrastructure failure (exit 2).
func judge(t *rapid.T, test string, c caseT, o outcome) {
	b, _ := json.Marshal(c)
	n := executed.Add(1)
	if o.infra != nil {
		k := noVerdict.Add(1)
		rec.Inconclusive()
		rec.Class("no-verdict/" + c.Kind)
		t.Logf("no verdict for case %s: %v", b, o.infra)
		if k >= 3 && k*20 > n {
			t.Fatalf("harness could not run %d of %d cases (no verdict), last: %v\ncase: %s", k, n, o.infra, b)
		}
		return
	}
	rec.Case(true, ev.Hash(b), o.classes...)
	if rec.WantSample() {
		rec.Sample(c)
	}
	if o.viol != "" {
		rec.Fail(t, test, c, "%s", o.viol)
	}
}

// ---------------------------------------------------------------------------
// form 2: gopcua <-> gopcua, sniffed

func runWire(c caseT) (o outcome) {
	pol := refcodec.PolicyByURI(c.Policy)
	ck, sk := pair("a", c.ClientBits, c.ClientChain), pair("b", c.ServerBits, c.ServerChain)
	p, err := chanpair.New(chanpair.Options{
		Policy: pol.URI, Mode: ua.MessageSecurityMode(c.mode()), ClientKey: ck, ServerKey: sk,
		ClientACK:      &uacp.Acknowledge{ReceiveBufSize: c.HelloRecv, SendBufSize: c.HelloSend},
		ServerACK:      &uacp.Acknowledge{ReceiveBufSize: c.RecvBuf, SendBufSize: c.SendBuf, MaxChunkCount: 512, MaxMessageSize: 8 << 20},
		RequestTimeout: 30 * time.Second, RequestIDSeed: c.FirstReq, ServerSeq: c.FirstSeq, ChannelID: c.ChannelID, TokenID: c.TokenID, Tap: true,
	})
	if err != nil {
		o.infra = fmt.Errorf("gopcua<->gopcua channel did not open: %w", err)
		return
	}
	defer p.Close()
	for i, m := range c.Msgs {
		srvErr := make(chan error, 1)
		go func() {
			mb := p.ServerReceive(30 * time.Second)
			if mb == nil {
				srvErr <- fmt.Errorf("server Receive timed out")
				return
			}
			if mb.Err != nil {
				srvErr <- fmt.Errorf("server Receive: %w", mb.Err)
				return
			}
			got, ok := reqPayloadOf(mb.Request())
			if !ok || got != reqPayload(m.ReqLen, i) {
				srvErr <- fmt.Errorf("server received a different request (%T)", mb.Request())
				return
			}
			srvErr <- p.Server.SendResponseWithContext(context.Background(), mb.RequestID, readResponse(mb.Request().Header().RequestHandle, m.RespLen, i))
		}()
		var got []byte
		err := p.Client.SendRequest(context.Background(), readRequest(nil, m.ReqLen, i), nil, func(r ua.Response) error {
			got, _ = respPayloadOf(r)
			return nil
		})
		if err == nil {
			err = <-srvErr
		}
		if err == nil && !bytes.Equal(got, respPayload(m.RespLen, i)) {
			err = fmt.Errorf("client received a different response")
		}
		if err != nil {
			o.infra = fmt.Errorf("gopcua<->gopcua exchange %d failed (not a layout verdict): %w", i, err)
			return
		}
	}
	p.Client.Close() // sends the CLO chunk
	var frames []netx.Frame
	for i := 0; i < 200; i++ {
		frames = p.Tap.Frames()
		if n := len(frames); n > 0 && frames[n-1].Type() == "CLO" {
			break
		}
		time.Sleep(10 * time.Millisecond)
	}
	verifyCapture(&o, c, pol, ck, sk, frames)
	return
}

// verifyCapture checks every secured frame of a recorded gopcua<->gopcua
// conversation with the reference.
func verifyCapture(o *outcome, c caseT, pol *refcodec.Policy, ck, sk *keys.Pair, frames []netx.Frame) {
	tag := "d1"
	channelClasses(o, tag, pol, c)
	var clientKeys, serverKeys *refcodec.Keys
	var clientNonce, serverNonce []byte
	var channelID, tokenID uint32
	type agg struct {
		body   []byte
		chunks int
	}
	msgs := map[string]*agg{} // dir/requestID
	var order []string
	sawCLO := false
	maxBody := refcodec.SymMaxBody(pol, c.mode(), int(c.SendBuf))
	for i, f := range frames {
		what := fmt.Sprintf("frame %d (%s %s%c, %d bytes)", i, f.Dir, f.Type(), f.Chunk(), len(f.Data))
		switch f.Type() {
		case "HEL", "ACK":
			continue
		case "OPN":
			if f.Dir == netx.C2S {
				ch, err := refcodec.ParseAsymChunk(f.Data, refcodec.AsymParse{ReceiverKey: sk.Key, ReceiverCert: sk.Cert})
				if err != nil {
					o.viol = fmt.Sprintf("%s: reference cannot verify the client's OPN request: %v", what, err)
					return
				}
				if o.viol = checkOPN(o, tag, what, ch, pol, ck, sk); o.viol != "" {
					return
				}
				svc, err := refcodec.DecodeService(ch.Body)
				req, ok := svc.(*ua.OpenSecureChannelRequest)
				if err != nil || !ok {
					o.viol = fmt.Sprintf("%s: decrypted OPN body is %T (%v), want OpenSecureChannelRequest", what, svc, err)
					return
				}
				if refcodec.Mode(req.SecurityMode) != c.mode() {
					o.viol = fmt.Sprintf("%s: request asks for mode %v, channel configured %v", what, req.SecurityMode, c.mode())
					return
				}
				clientNonce = req.ClientNonce
			} else {
				ch, err := refcodec.ParseAsymChunk(f.Data, refcodec.AsymParse{ReceiverKey: ck.Key, ReceiverCert: ck.Cert})
				if err != nil {
					o.viol = fmt.Sprintf("%s: reference cannot verify the server's OPN response: %v", what, err)
					return
				}
				if o.viol = checkOPN(o, tag, what, ch, pol, sk, ck); o.viol != "" {
					return
				}
				svc, err := refcodec.DecodeService(ch.Body)
				resp, ok := svc.(*ua.OpenSecureChannelResponse)
				if err != nil || !ok || resp.SecurityToken == nil {
					o.viol = fmt.Sprintf("%s: decrypted OPN body is %T (%v), want OpenSecureChannelResponse", what, svc, err)
					return
				}
				serverNonce = resp.ServerNonce
				channelID, tokenID = resp.SecurityToken.ChannelID, resp.SecurityToken.TokenID
				if ch.SecureChannelID != channelID {
					o.viol = fmt.Sprintf("%s: header SecureChannelId %d, token says %d", what, ch.SecureChannelID, channelID)
					return
				}
				clientKeys, serverKeys = refcodec.DeriveKeys(pol, clientNonce, serverNonce)
			}
		case "MSG", "CLO":
			if clientKeys == nil {
				o.infra = fmt.Errorf("%s before both OPN chunks were seen", what)
				return
			}
			k, who := clientKeys, "client"
			if f.Dir == netx.S2C {
				k, who = serverKeys, "server"
			}
			ch, err := refcodec.ParseSymChunk(f.Data, pol, c.mode(), k)
			if err != nil {
				o.viol = fmt.Sprintf("%s: reference cannot verify the %s's chunk with the keys it derived from the nonces: %v", what, who, err)
				return
			}
			if ch.SecureChannelID != channelID || ch.TokenID != tokenID {
				o.viol = fmt.Sprintf("%s: SecureChannelId/TokenId %d/%d, the OPN response issued %d/%d", what, ch.SecureChannelID, ch.TokenID, channelID, tokenID)
				return
			}
			if f.Type() == "CLO" {
				sawCLO = true
				o.class("%s/CLO", tag)
				continue
			}
			key := fmt.Sprintf("%s/%d", f.Dir, ch.RequestID)
			a := msgs[key]
			if a == nil {
				a = &agg{}
				msgs[key] = a
				order = append(order, key)
			}
			a.body = append(a.body, ch.Body...)
			a.chunks++
			if ch.ChunkType == 'F' {
				o.class("%s/last-chunk-body=%s", tag, sizeClass(len(ch.Body), maxBody))
			}
			if c.Encrypt {
				o.class("%s/msg-padding=%s", tag, map[bool]string{true: "0", false: ">0"}[ch.PaddingSize == 0])
			}
		default:
			o.viol = fmt.Sprintf("%s: unexpected frame type", what)
			return
		}
	}
	if serverKeys == nil {
		o.infra = fmt.Errorf("capture holds no OPN exchange (%d frames)", len(frames))
		return
	}
	if !sawCLO {
		o.class("%s/no-CLO-captured", tag)
	}
	// reassembled bodies decode to what was sent
	if len(order) != 2*len(c.Msgs) {
		o.infra = fmt.Errorf("capture holds %d messages, want %d", len(order), 2*len(c.Msgs))
		return
	}
	for i, m := range c.Msgs {
		for j, key := range order[2*i : 2*i+2] {
			a := msgs[key]
			svc, err := refcodec.DecodeService(a.body)
			ok := err == nil
			if ok && j == 0 {
				var got string
				got, ok = reqPayloadOf(svc)
				ok = ok && got == reqPayload(m.ReqLen, i)
			} else if ok {
				var got []byte
				got, ok = respPayloadOf(svc)
				ok = ok && bytes.Equal(got, respPayload(m.RespLen, i))
			}
			if !ok {
				o.viol = fmt.Sprintf("message %s: the bodies the reference decrypted (%d chunks, %d bytes) do not decode to the message that was sent (%T, %v)", key, a.chunks, len(a.body), svc, err)
				return
			}
			if a.chunks > 1 {
				o.class("%s/msg=multi-chunk", tag)
			} else {
				o.class("%s/msg=single-chunk", tag)
			}
		}
	}
}

func TestWire(t *testing.T) {
	rapid.Check(t, func(t *rapid.T) {
		c := genChannel(t, "wire")
		judge(t, "TestWire", c, journaled("TestWire", c, runWire))
	})
}

// ---------------------------------------------------------------------------
// form 3: reference client -> gopcua server channel

// refMaxBody is the largest chunk body the reference may send to a receiver
// with the given buffer. A sender that pads a whole block when the plaintext is
// already aligned (FullPad) always writes at least one Padding byte, so its
// maximal body is one byte smaller.
func refMaxBody(pol *refcodec.Policy, c caseT, buf int) int {
	m := refcodec.SymMaxBody(pol, c.mode(), buf)
	if c.FullPad && c.Encrypt {
		m--
	}
	return m
}

// splitSizes turns the drawn split into concrete body sizes for a body of n
// bytes and a maximal chunk body of maxBody bytes; the final chunk (not listed)
// never exceeds maxBody.
func splitSizes(split []int, n, maxBody int) []int {
	var out []int
	rem := n
	for _, s := range split {
		if rem == 0 {
			break
		}
		if s < 0 || s > maxBody {
			s = maxBody
		}
		if s > rem {
			s = rem
		}
		out = append(out, s)
		rem -= s
	}
	for rem > maxBody {
		out = append(out, maxBody)
		rem -= maxBody
	}
	return out
}

func recvWithTimeout(srv *uasc.SecureChannel, d time.Duration) *uasc.MessageBody {
	ch := make(chan *uasc.MessageBody, 1)
	go func() {
		defer func() {
			if r := recover(); r != nil {
				ch <- &uasc.MessageBody{Err: fmt.Errorf("panic in Receive: %v", r)}
			}
		}()
		ch <- srv.Receive(context.Background())
	}()
	select {
	case m := <-ch:
		return m
	case <-time.After(d):
		return nil
	}
}

func runRefClient(c caseT) (o outcome) {
	tag := "d2c"
	pol := refcodec.PolicyByURI(c.Policy)
	ck, sk := pair("a", c.ClientBits, c.ClientChain), pair("b", c.ServerBits, c.ServerChain)
	nonce, _ := hex.DecodeString(c.Nonce)
	ctx := context.Background()
	ln, err := uacp.Listen(ctx, "opc.tcp://127.0.0.1:0", &uacp.Acknowledge{ReceiveBufSize: c.RecvBuf, SendBufSize: c.SendBuf, MaxChunkCount: 512, MaxMessageSize: 8 << 20})
	if err != nil {
		o.infra = err
		return
	}
	defer ln.Close()
	ep := "opc.tcp://" + ln.Addr().String()
	type acc struct {
		c   *uacp.Conn
		err error
	}
	accCh := make(chan acc, 1)
	go func() {
		cc, err := ln.Accept(ctx)
		accCh <- acc{cc, err}
	}()
	tcp, err := net.DialTimeout("tcp", ln.Addr().String(), 5*time.Second)
	if err != nil {
		o.infra = err
		return
	}
	defer tcp.Close()
	s := refcodec.NewClientSession(tcp, pol, c.mode(), ck.Key, ck.Cert, sk.Cert)
	s.Timeout = 40 * time.Second
	s.AsymOptions.FullBlockWhenAligned = c.FullPad
	s.SymOptions.FullBlockWhenAligned = c.FullPad
	ack, err := s.Hello(refcodec.Hello{ReceiveBufferSize: c.HelloRecv, SendBufferSize: c.HelloSend, EndpointURL: ep})
	if err != nil {
		o.infra = fmt.Errorf("HEL/ACK: %w", err)
		return
	}
	var conn *uacp.Conn
	select {
	case a := <-accCh:
		if a.err != nil {
			o.infra = a.err
			return
		}
		conn = a.c
	case <-time.After(10 * time.Second):
		o.infra = fmt.Errorf("accept timed out")
		return
	}
	defer conn.Close()
	errch := make(chan error, 16)
	scfg := &uasc.Config{SecurityPolicyURI: ua.SecurityPolicyURINone, SecurityMode: ua.MessageSecurityModeNone, Lifetime: 3600_000, RequestTimeout: 30 * time.Second,
		Certificate: sk.Cert, LocalKey: sk.Key}
	srv, err := uasc.NewServerSecureChannel(ep, conn, scfg, errch, c.ChannelID, c.FirstSeq, c.TokenID)
	if err != nil {
		o.infra = err
		return
	}
	channelClasses(&o, tag, pol, c)

	// ---- OPN
	reqID, seq := c.FirstReq, c.FirstSeq
	opnFrame, err := s.OpenRequest(reqID, seq, false, nonce, 3600_000)
	if err != nil {
		o.infra = fmt.Errorf("reference could not send the OPN request: %w", err)
		return
	}
	seq++
	mb := recvWithTimeout(srv, 30*time.Second)
	if mb == nil {
		o.infra = fmt.Errorf("gopcua server neither accepted nor rejected the OPN request within 30 s")
		return
	}
	if mb.Err != nil {
		o.viol = fmt.Sprintf("gopcua server channel rejected the reference's conforming OPN request (%d bytes, %s, client key %d bit, server key %d bit): %v", len(opnFrame), pol.Name, c.ClientBits, c.ServerBits, mb.Err)
		return
	}
	resp, opn, err := s.ReadOpenResponse()
	if err != nil {
		if e, ok := refErr(err); ok {
			o.viol = fmt.Sprintf("reference cannot verify the gopcua server's OPN response: %v", e)
		} else {
			o.infra = fmt.Errorf("reading the OPN response: %w", err)
		}
		return
	}
	if o.viol = checkOPN(&o, tag, "OPN response", opn, pol, sk, ck); o.viol != "" {
		return
	}
	if resp.SecurityToken.ChannelID != c.ChannelID || resp.SecurityToken.TokenID != c.TokenID || opn.SecureChannelID != c.ChannelID || opn.RequestID != reqID {
		o.viol = fmt.Sprintf("OPN response: channel/token %d/%d header channel %d request id %d; configured %d/%d, request id sent %d", resp.SecurityToken.ChannelID, resp.SecurityToken.TokenID, opn.SecureChannelID, opn.RequestID, c.ChannelID, c.TokenID, reqID)
		return
	}

	// ---- MSG
	refMax := refMaxBody(pol, c, int(ack.ReceiveBufferSize))
	gopcuaMax := refcodec.SymMaxBody(pol, c.mode(), int(c.SendBuf))
	for i, m := range c.Msgs {
		reqID++
		body, err := refcodec.EncodeService(readRequest(refcodec.NewRequestHeader(reqID), m.ReqLen, i))
		if err != nil {
			o.infra = err
			return
		}
		sizes := splitSizes(m.ReqSplit, len(body), refMax)
		sent, err := s.SendMessage(reqID, seq, body, sizes)
		if err != nil {
			o.infra = fmt.Errorf("reference could not send message %d: %w", i, err)
			return
		}
		seq += uint32(len(sent))
		if len(sent) > 1 {
			o.class("%s/ref-msg=multi-chunk", tag)
		} else {
			o.class("%s/ref-msg=single-chunk", tag)
		}
		for _, f := range sent {
			if len(f) > int(ack.ReceiveBufferSize) {
				o.infra = fmt.Errorf("harness: reference built a %d byte chunk for a %d byte receive buffer", len(f), ack.ReceiveBufferSize)
				return
			}
			if len(f) > int(ack.ReceiveBufferSize)-16 {
				o.class("%s/ref-chunk=maximal", tag)
			}
		}
		mb := recvWithTimeout(srv, 30*time.Second)
		if mb == nil {
			o.infra = fmt.Errorf("gopcua server neither delivered nor rejected message %d within 30 s", i)
			return
		}
		if mb.Err != nil {
			o.viol = fmt.Sprintf("gopcua server channel rejected the reference's conforming MSG message %d (%d body bytes in %d chunks): %v", i, len(body), len(sent), mb.Err)
			return
		}
		got, ok := reqPayloadOf(mb.Request())
		if !ok || got != reqPayload(m.ReqLen, i) || mb.RequestID != reqID {
			o.viol = fmt.Sprintf("gopcua server channel delivered a different message %d: %T request id %d (sent %d), payload %d bytes (sent %d)", i, mb.Request(), mb.RequestID, reqID, len(got), m.ReqLen)
			return
		}
		if err := srv.SendResponseWithContext(ctx, reqID, readResponse(reqID, m.RespLen, i)); err != nil {
			o.infra = fmt.Errorf("gopcua server could not send response %d: %w", i, err)
			return
		}
		rm, err := s.ReadMessage()
		if err != nil {
			if e, ok := refErr(err); ok {
				o.viol = fmt.Sprintf("reference cannot verify chunk %d of the gopcua server's response %d with the keys it derived from the nonces: %v", len(rm.Chunks), i, e)
			} else {
				o.infra = fmt.Errorf("reading response %d: %w", i, err)
			}
			return
		}
		gotb, ok := respPayloadOf(rm.Service)
		if !ok || !bytes.Equal(gotb, respPayload(m.RespLen, i)) || rm.RequestID != reqID {
			o.viol = fmt.Sprintf("response %d: the bodies the reference decrypted do not decode to the response gopcua sent (%T, request id %d)", i, rm.Service, rm.RequestID)
			return
		}
		for _, ch := range rm.Chunks {
			if ch.SecureChannelID != c.ChannelID || ch.TokenID != c.TokenID {
				o.viol = fmt.Sprintf("response %d: SecureChannelId/TokenId %d/%d, issued %d/%d", i, ch.SecureChannelID, ch.TokenID, c.ChannelID, c.TokenID)
				return
			}
		}
		if len(rm.Chunks) > 1 {
			o.class("%s/gopcua-msg=multi-chunk", tag)
		} else {
			o.class("%s/gopcua-msg=single-chunk", tag)
		}
		o.class("%s/gopcua-last-chunk-body=%s", tag, sizeClass(len(rm.Chunks[len(rm.Chunks)-1].Body), gopcuaMax))
	}
	// ---- CLO
	reqID++
	clo, _ := refcodec.EncodeService(&ua.CloseSecureChannelRequest{RequestHeader: refcodec.NewRequestHeader(reqID)})
	if _, err := s.SendMSG("CLO", reqID, seq, 'F', clo); err == nil {
		if mb := recvWithTimeout(srv, 30*time.Second); mb != nil && mb.Err == io.EOF {
			o.class("%s/CLO-accepted", tag)
		}
	}
	return
}

func TestRefClient(t *testing.T) {
	rapid.Check(t, func(t *rapid.T) {
		c := genChannel(t, "refclient")
		judge(t, "TestRefClient", c, journaled("TestRefClient", c, runRefClient))
	})
}

// ---------------------------------------------------------------------------
// form 4: gopcua client channel -> reference server

func runRefServer(c caseT) (o outcome) {
	tag := "d2s"
	pol := refcodec.PolicyByURI(c.Policy)
	ck, sk := pair("a", c.ClientBits, c.ClientChain), pair("b", c.ServerBits, c.ServerChain)
	nonce, _ := hex.DecodeString(c.Nonce)
	ln, err := net.Listen("tcp", "127.0.0.1:0")
	if err != nil {
		o.infra = err
		return
	}
	defer ln.Close()
	ep := "opc.tcp://" + ln.Addr().String()
	channelClasses(&o, tag, pol, c)
	refMax := refMaxBody(pol, c, int(c.RecvBuf))
	gopcuaMax := refcodec.SymMaxBody(pol, c.mode(), int(c.SendBuf))

	// the reference server's script; its verdict comes back through srvDone
	var so outcome
	srvDone := make(chan struct{})
	var stageV atomic.Value // what the server was doing last
	stageV.Store("start")
	go func() {
		defer close(srvDone)
		stageV.Store("accept")
		tcp, err := ln.Accept()
		if err != nil {
			so.infra = err
			return
		}
		defer tcp.Close()
		s := refcodec.NewServerSession(tcp, sk.Key, sk.Cert, c.ChannelID, c.TokenID)
		s.Timeout = 40 * time.Second
		s.AsymOptions.FullBlockWhenAligned = c.FullPad
		s.SymOptions.FullBlockWhenAligned = c.FullPad
		stageV.Store("HEL/ACK")
		if _, err := s.AcceptHello(refcodec.Acknowledge{ReceiveBufferSize: c.RecvBuf, SendBufferSize: c.SendBuf, MaxMessageSize: 8 << 20, MaxChunkCount: 512}); err != nil {
			so.infra = fmt.Errorf("HEL/ACK: %w", err)
			return
		}
		stageV.Store("OPN request")
		req, opn, err := s.ReadOpenRequest()
		if err != nil {
			if e, ok := refErr(err); ok {
				so.viol = fmt.Sprintf("reference cannot verify the gopcua client's OPN request: %v", e)
			} else {
				so.infra = fmt.Errorf("reading the OPN request: %w", err)
			}
			return
		}
		if so.viol = checkOPN(&so, tag, "OPN request", opn, pol, ck, sk); so.viol != "" {
			return
		}
		if refcodec.Mode(req.SecurityMode) != c.mode() {
			so.viol = fmt.Sprintf("OPN request asks for mode %v, channel configured %v", req.SecurityMode, c.mode())
			return
		}
		seq := c.FirstSeq
		stageV.Store("OPN response")
		if _, err := s.OpenResponse(opn.RequestID, seq, req.RequestHeader.RequestHandle, nonce, req.RequestedLifetime); err != nil {
			so.infra = fmt.Errorf("reference could not send the OPN response: %w", err)
			return
		}
		seq++
		for i, m := range c.Msgs {
			stageV.Store(fmt.Sprintf("request %d", i))
			rm, err := s.ReadMessage()
			if err != nil {
				if e, ok := refErr(err); ok {
					so.viol = fmt.Sprintf("reference cannot verify chunk %d of the gopcua client's request %d with the keys it derived from the nonces: %v", len(rm.Chunks), i, e)
				} else {
					so.infra = fmt.Errorf("reading request %d: %w", i, err)
				}
				return
			}
			got, ok := reqPayloadOf(rm.Service)
			if !ok || got != reqPayload(m.ReqLen, i) {
				so.viol = fmt.Sprintf("request %d: the bodies the reference decrypted do not decode to the request gopcua sent (%T)", i, rm.Service)
				return
			}
			for _, ch := range rm.Chunks {
				if ch.SecureChannelID != c.ChannelID || ch.TokenID != c.TokenID {
					so.viol = fmt.Sprintf("request %d: SecureChannelId/TokenId %d/%d, issued %d/%d", i, ch.SecureChannelID, ch.TokenID, c.ChannelID, c.TokenID)
					return
				}
			}
			if len(rm.Chunks) > 1 {
				so.class("%s/gopcua-msg=multi-chunk", tag)
			} else {
				so.class("%s/gopcua-msg=single-chunk", tag)
			}
			so.class("%s/gopcua-last-chunk-body=%s", tag, sizeClass(len(rm.Chunks[len(rm.Chunks)-1].Body), gopcuaMax))
			handle := rm.Service.(*ua.ReadRequest).RequestHeader.RequestHandle
			body, err := refcodec.EncodeService(readResponse(handle, m.RespLen, i))
			if err != nil {
				so.infra = err
				return
			}
			stageV.Store(fmt.Sprintf("response %d", i))
			sent, err := s.SendMessage(rm.RequestID, seq, body, splitSizes(m.RespSplit, len(body), refMax))
			if err != nil {
				so.infra = fmt.Errorf("reference could not send response %d: %w", i, err)
				return
			}
			seq += uint32(len(sent))
			if len(sent) > 1 {
				so.class("%s/ref-msg=multi-chunk", tag)
			} else {
				so.class("%s/ref-msg=single-chunk", tag)
			}
			for _, f := range sent {
				if len(f) > int(c.RecvBuf) {
					so.infra = fmt.Errorf("harness: reference built a %d byte chunk for a %d byte receive buffer", len(f), c.RecvBuf)
					return
				}
				if len(f) > int(c.RecvBuf)-16 {
					so.class("%s/ref-chunk=maximal", tag)
				}
			}
		}
		stageV.Store("CLO")
		ch, err := s.ReadChunk()
		if err != nil {
			if e, ok := refErr(err); ok {
				so.viol = fmt.Sprintf("reference cannot verify the gopcua client's CLO chunk: %v", e)
			}
			// a connection closed without CLO is not a layout matter
			return
		}
		if ch.MessageType == "CLO" {
			so.class("%s/CLO", tag)
		}
	}()
	finish := func() {
		ln.Close()
		select {
		case <-srvDone:
		case <-time.After(60 * time.Second):
			o.infra = fmt.Errorf("reference server script did not finish (stage %v)", stageV.Load())
			return
		}
		o.classes = append(o.classes, so.classes...)
		// what the reference saw first explains what the client reports later
		if so.viol != "" {
			o.viol, o.infra = so.viol, nil
		} else if so.infra != nil && o.viol == "" {
			o.infra = so.infra
		}
	}

	ctx, cancel := context.WithTimeout(context.Background(), 150*time.Second)
	defer cancel()
	d := &uacp.Dialer{Dialer: &net.Dialer{}, ClientACK: &uacp.Acknowledge{ReceiveBufSize: c.HelloRecv, SendBufSize: c.HelloSend}}
	conn, err := d.Dial(ctx, ep)
	if err != nil {
		o.infra = fmt.Errorf("uacp dial: %w", err)
		finish()
		return
	}
	defer conn.Close()
	errch := make(chan error, 16)
	ccfg := &uasc.Config{SecurityPolicyURI: pol.URI, SecurityMode: ua.MessageSecurityMode(c.mode()), Lifetime: 3600_000, RequestTimeout: 30 * time.Second,
		RequestIDSeed: c.FirstReq, Certificate: ck.Cert, LocalKey: ck.Key, RemoteCertificate: sk.Cert, Thumbprint: uapolicy.Thumbprint(sk.Cert)}
	cl, err := uasc.NewSecureChannel(ep, conn, ccfg, errch)
	if err != nil {
		o.infra = err
		finish()
		return
	}
	if err := cl.Open(ctx); err != nil {
		if errors.Is(err, ua.StatusBadTimeout) || errors.Is(err, context.DeadlineExceeded) {
			o.infra = fmt.Errorf("gopcua client Open timed out: %w", err)
		} else {
			o.viol = fmt.Sprintf("gopcua client channel rejected the reference's conforming OPN response (%s, client key %d bit, server key %d bit): %v", pol.Name, c.ClientBits, c.ServerBits, err)
		}
		conn.Close()
		finish()
		return
	}
	for i, m := range c.Msgs {
		var got []byte
		var gotOK bool
		err := cl.SendRequest(ctx, readRequest(nil, m.ReqLen, i), nil, func(r ua.Response) error {
			got, gotOK = respPayloadOf(r)
			return nil
		})
		if err != nil {
			if errors.Is(err, ua.StatusBadTimeout) || errors.Is(err, context.DeadlineExceeded) {
				o.infra = fmt.Errorf("gopcua client request %d timed out: %w", i, err)
			} else {
				o.viol = fmt.Sprintf("gopcua client channel did not accept the reference's conforming response %d (%d payload bytes): %v", i, m.RespLen, err)
			}
			conn.Close()
			finish()
			return
		}
		if !gotOK || !bytes.Equal(got, respPayload(m.RespLen, i)) {
			o.viol = fmt.Sprintf("gopcua client channel delivered a different response %d (%d payload bytes, sent %d)", i, len(got), m.RespLen)
			conn.Close()
			finish()
			return
		}
	}
	cl.Close()
	finish()
	return
}

func TestRefServer(t *testing.T) {
	rapid.Check(t, func(t *rapid.T) {
		c := genChannel(t, "refserver")
		judge(t, "TestRefServer", c, journaled("TestRefServer", c, runRefServer))
	})
}

// ---------------------------------------------------------------------------

func run(c caseT) outcome {
	switch c.Kind {
	case "keyed":
		return runKeyed(c)
	case "wire":
		return runWire(c)
	case "refclient":
		return runRefClient(c)
	case "refserver":
		return runRefServer(c)
	}
	return outcome{infra: fmt.Errorf("unknown case kind %q", c.Kind)}
}

// TestReplay re-runs a saved case without rapid. The case is plain data; the
// randomness inside gopcua (nonces, RSA padding) does not enter the verdict.
func TestReplay(t *testing.T) {
	rp, err := ev.LoadReplay()
	if err != nil {
		t.Fatal(err)
	}
	if rp == nil {
		t.Skip("no VERIF_REPLAY")
	}
	var c caseT
	if err := json.Unmarshal(rp.Case, &c); err != nil {
		t.Fatal(err)
	}
	fmt.Println("REPLAYED structured")
	o := run(c)
	if o.infra != nil {
		t.Fatalf("harness could not run the case: %v", o.infra)
	}
	if o.viol != "" {
		t.Fatalf("property C08 violated: %s", o.viol)
	}
}
