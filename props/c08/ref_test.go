package c08

import (
	"bytes"
	"crypto/sha1"
	"crypto/sha256"
	"encoding/hex"
	"testing"

	"verif/pkg/keys"
	"verif/pkg/refcodec"
)

func unhex(s string) []byte {
	b, err := hex.DecodeString(s)
	if err != nil {
		panic(err)
	}
	return b
}

// TestReference checks the oracle itself (a failure here is a harness problem,
// never a violation of the property): P_hash against published vectors, the
// direction of the key derivation, and build -> parse round trips of symmetric
// and asymmetric chunks including rejection of tampered ones. The full
// self-test lives in verif/pkg/refcodec.
func TestReference(t *testing.T) {
	secret := unhex("9bbe436ba940f017b17652849a71db35")
	seed := append([]byte("test label"), unhex("a0ba9f936cda311827a6f796ffd5198c")...)
	want := "e3f229ba727be17b8d122620557cd453c2aab21d07c3d495329b52d4e61edb5a6b301791e90d35c9c9a46b4e14baf9af0fa022f7077def17abfd3797c0564bab4fbc91666e9def9b97fce34f796789baa48082d122ee42c5a72e5a5110fff70187347b66"
	if got := hex.EncodeToString(refcodec.PHash(sha256.New, secret, seed, 100)); got != want {
		t.Fatalf("P_SHA256 (TLS 1.2 PRF vector): got %s", got)
	}
	a := unhex("ee5168840e07f3945b6db73a413ec25c")
	b := unhex("9b0f5bf85e32fb37014369b314de7ae7")
	wantAB := "cbfb774244b103b3b52c107ca3ae80d4" + "0052b682b22c755471dbf7c98f8839fa" + "f897f413ccc7b819e545c7aec35d9d77"
	wantBA := "9e0aa920ed7ec2186db819958cd90fa5" + "9c11ea7daad87bbc9447cb1c06b5c64b" + "09aa4f50154d69c50b3b787fd8543645"
	if hex.EncodeToString(refcodec.PHash(sha1.New, a, b, 48)) != wantAB || hex.EncodeToString(refcodec.PHash(sha1.New, b, a, 48)) != wantBA {
		t.Fatalf("P_SHA1 vector mismatch")
	}
	ck, sk := refcodec.DeriveKeys(refcodec.PolicyByURI("Basic128Rsa15"), a, b)
	if hex.EncodeToString(ck.Sign)+hex.EncodeToString(ck.Enc)+hex.EncodeToString(ck.IV) != wantBA ||
		hex.EncodeToString(sk.Sign)+hex.EncodeToString(sk.Enc)+hex.EncodeToString(sk.IV) != wantAB {
		t.Fatalf("DeriveKeys: client keys must be P(secret=ServerNonce, seed=ClientNonce), server keys P(secret=ClientNonce, seed=ServerNonce)")
	}
	for _, name := range secPolicies {
		p := refcodec.PolicyByURI(name)
		ks := keySizes(name)
		snd, rcv := keys.Get("a", ks[0]), keys.Get("b", ks[len(ks)-1])
		raw, err := refcodec.BuildAsymChunk(p, refcodec.AsymHeader{ChunkType: 'F', SecureChannelID: 1, SequenceNumber: 2, RequestID: 3, SenderCert: snd.Cert, SenderKey: snd.Key, ReceiverCert: rcv.Cert}, []byte("body"), refcodec.AsymOptions{})
		if err != nil {
			t.Fatal(err)
		}
		c, err := refcodec.ParseAsymChunk(raw, refcodec.AsymParse{ReceiverKey: rcv.Key, ReceiverCert: rcv.Cert})
		if err != nil || string(c.Body) != "body" || c.ExtraPaddingSize != (rcv.Bits > 2048) {
			t.Fatalf("%s asym round trip: %v", name, err)
		}
		raw[len(raw)-1] ^= 1
		if _, err := refcodec.ParseAsymChunk(raw, refcodec.AsymParse{ReceiverKey: rcv.Key, ReceiverCert: rcv.Cert}); err == nil {
			t.Fatalf("%s: tampered OPN accepted", name)
		}
		for _, mode := range []refcodec.Mode{refcodec.ModeSign, refcodec.ModeSignAndEncrypt} {
			k1, k2 := refcodec.DeriveKeys(p, bytes.Repeat([]byte{1}, p.NonceLen), bytes.Repeat([]byte{2}, p.NonceLen))
			raw, err := refcodec.BuildSymChunk(p, mode, k1, refcodec.SymHeader{MessageType: "MSG", ChunkType: 'F', SecureChannelID: 1, TokenID: 2, SequenceNumber: 3, RequestID: 4}, []byte("hello"), refcodec.SymOptions{})
			if err != nil {
				t.Fatal(err)
			}
			if c, err := refcodec.ParseSymChunk(raw, p, mode, k1); err != nil || string(c.Body) != "hello" {
				t.Fatalf("%s %s sym round trip: %v", name, mode, err)
			}
			if _, err := refcodec.ParseSymChunk(raw, p, mode, k2); err == nil {
				t.Fatalf("%s %s: chunk verifies with the other direction's keys", name, mode)
			}
		}
	}
}
