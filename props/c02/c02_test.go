// Package c02 decides property C02: decoding arbitrary bytes is safe (no panic,
// no hang, bounded memory). Generator: pkg/hostile; oracle inside the target:
// recover, CPU-time bound (thread rusage) judged with a confirmation re-run, allocation
// accounting (TotalAlloc delta <= 2048*len(input) + 4 MiB).
package c02

import (
	"encoding/hex"
	"encoding/json"
	"fmt"
	"os"
	"reflect"
	"runtime"
	"runtime/debug"
	"syscall"
	"testing"
	"time"

	"github.com/gopcua/opcua/ua"
	"pgregory.net/rapid"

	"verif/pkg/ev"
	"verif/pkg/gen"
	"verif/pkg/hostile"
)

func TestMain(m *testing.M) {
	// a decoder that recurses without bound must fail as a Go panic we can
	// attribute, not eat the machine: 512 MiB of stack is far beyond any
	// legitimate message
	debug.SetMaxStack(512 << 20)
	ev.Main(m)
}

var rec = ev.For("C02", "rapid-generated decoder inputs (pkg/hostile: byte-level mutants of valid encodings of every registered type, hostile length/count/mask constants, a grammar of hostile Variants and ExtensionObjects, nesting towers, raw noise) against every decodable type, DecodeService and Variant.Decode; non-trivial = the decoder returned a value or consumed >= 8 bytes; distinct by hash of (type, input)")

type caseT struct {
	Type  string `json:"type"`
	Class string `json:"class"`
	Hex   string `json:"input_hex"`
	Len   int    `json:"len"`
}

const (
	allocFactor = 2048
	allocFixed  = 4 << 20
	timeBound   = 2 * time.Second
)

type outcome struct {
	n     int
	err   error
	pan   any
	alloc uint64
	dur   time.Duration
	hung  bool
}

// decodeOnce runs one decode in its own goroutine with recover and accounting.
func decodeOnce(typ reflect.Type, data []byte, service bool) outcome {
	done := make(chan outcome, 1)
	go func() {
		// the time bound is judged on the CPU time of this thread, not on wall
		// time: a busy machine stretches wall time arbitrarily
		runtime.LockOSThread()
		defer runtime.UnlockOSThread()
		var o outcome
		var m0, m1 runtime.MemStats
		runtime.ReadMemStats(&m0)
		t0 := threadCPU()
		func() {
			defer func() {
				if r := recover(); r != nil {
					o.pan = r
				}
			}()
			if service {
				_, _, o.err = ua.DecodeService(data)
				if o.err == nil {
					o.n = len(data)
				}
				return
			}
			w := reflect.New(typ.Elem()).Interface()
			o.n, o.err = ua.Decode(data, w)
		}()
		o.dur = threadCPU() - t0
		runtime.ReadMemStats(&m1)
		o.alloc = m1.TotalAlloc - m0.TotalAlloc
		done <- o
	}()
	// A decode that does not return is recognised by the CPU time the process
	// burns while we wait (one case runs at a time per process), not by wall
	// time: a saturated machine stretches wall time arbitrarily.
	start := processCPU()
	wall := time.Now()
	tick := time.NewTicker(50 * time.Millisecond)
	defer tick.Stop()
	for {
		select {
		case o := <-done:
			return o
		case <-tick.C:
			if processCPU()-start > hangCPU || time.Since(wall) > hangWall {
				return outcome{hung: true, dur: processCPU() - start}
			}
		}
	}
}

// hangCPU is far beyond any legitimate decode (the slowest generated input, a
// 100000-level tower, needs about a second of CPU); hangWall only guards
// against a decode that blocks without burning CPU.
const (
	hangCPU  = 60 * time.Second
	hangWall = 20 * time.Minute
)

func processCPU() time.Duration {
	var ru syscall.Rusage
	if err := syscall.Getrusage(0 /* RUSAGE_SELF */, &ru); err != nil {
		return 0
	}
	return time.Duration(ru.Utime.Nano() + ru.Stime.Nano())
}

func threadCPU() time.Duration {
	var ru syscall.Rusage
	if err := syscall.Getrusage(1 /* RUSAGE_THREAD */, &ru); err != nil {
		return 0
	}
	return time.Duration(ru.Utime.Nano() + ru.Stime.Nano())
}

// judge returns "" if the property holds for this input.
func judge(typ reflect.Type, data []byte, service bool) (string, outcome) {
	o := decodeOnce(typ, data, service)
	if o.hung {
		return fmt.Sprintf("decode did not return after %v of CPU time", o.dur), o
	}
	if o.pan != nil {
		return fmt.Sprintf("decode panicked: %v", o.pan), o
	}
	limit := uint64(allocFactor*len(data) + allocFixed)
	// Gross excess is not re-measured: the CPU time is the decoding thread's own
	// (a busy machine does not stretch it) and no other goroutine of this
	// process allocates hundreds of MiB. Re-measuring would even hide a real
	// cost: reflect caches the slice types a decode creates, so the second
	// decode of the same input is cheap while a peer simply varies its input.
	if o.alloc > 4*limit && o.alloc > 64<<20 {
		return fmt.Sprintf("decoding %d input bytes allocated %d bytes (bound %d; first decode of this input in the process)", len(data), o.alloc, limit), o
	}
	if len(data) <= 64<<10 && o.dur > 3*timeBound {
		return fmt.Sprintf("decoding %d input bytes took %v of CPU time (bound %v; first decode of this input in the process)", len(data), o.dur, timeBound), o
	}
	if o.alloc > limit || (len(data) <= 64<<10 && o.dur > timeBound) {
		// confirm in isolation (other goroutines of the process also allocate;
		// a busy machine stretches time): violation only if it reproduces twice
		for i := 0; i < 2; i++ {
			runtime.GC()
			o2 := decodeOnce(typ, data, service)
			if !(o2.alloc > limit || (len(data) <= 64<<10 && o2.dur > timeBound)) {
				return "", o
			}
			o = o2
		}
		if o.alloc > limit {
			return fmt.Sprintf("decoding %d input bytes allocated %d bytes (bound %d)", len(data), o.alloc, limit), o
		}
		return fmt.Sprintf("decoding %d input bytes took %v of CPU time (bound %v)", len(data), o.dur, timeBound), o
	}
	return "", o
}

func runCase(t *rapid.T, test string, c hostile.Case, service bool) {
	cc := caseT{Type: c.Type.Name, Class: c.Class, Hex: hex.EncodeToString(c.Data), Len: len(c.Data)}
	if service {
		cc.Type = "DecodeService"
	}
	// every case is journalled: a fatal stack overflow or an allocation bomb
	// takes the process down and the driver then names this case
	rec.Journal(test, cc)
	msg, o := judge(c.Type.Type, c.Data, service)
	rec.JournalDone(test)
	if o.hung {
		// the runaway decode keeps burning CPU and memory in this process:
		// report and leave (no shrinking)
		rec.Case(true, ev.Hash(cc.Type, c.Data), "class:"+classHead(c.Class), "result:hang")
		path := rec.WriteReplay(test, cc, msg)
		fmt.Printf("property C02 violated: %s (%s): %s (replay %s)\n", cc.Type, c.Class, msg, path)
		ev.Flush()
		os.Exit(1)
	}
	nt := o.err == nil || o.n >= 8
	res := "err"
	if o.err == nil {
		res = "ok"
	}
	rec.Case(nt, ev.Hash(cc.Type, c.Data), "class:"+classHead(c.Class), "result:"+res)
	if nt && rec.WantSample() {
		rec.Sample(cc)
	}
	if msg != "" {
		rec.Fail(t, test, cc, "%s (%s): %s", cc.Type, c.Class, msg)
	}
}

func classHead(c string) string {
	for i := 0; i < len(c); i++ {
		if c[i] == ',' {
			return c[:i]
		}
	}
	return c
}

func TestDecodeHostile(t *testing.T) {
	uni := gen.Universe()
	rapid.Check(t, func(t *rapid.T) {
		c := hostile.Draw(t, uni)
		runCase(t, "TestDecodeHostile", c, false)
	})
}

// TestDecodeService: type id prefix + hostile body through ua.DecodeService.
func TestDecodeService(t *testing.T) {
	var svcs []gen.TypeInfo
	for _, ti := range gen.Universe() {
		if ti.Kind == "service" {
			svcs = append(svcs, ti)
		}
	}
	rapid.Check(t, func(t *rapid.T) {
		c := hostile.Draw(t, svcs)
		if c.Type.Kind == "service" {
			tid, _ := ua.NewFourByteNodeID(0, uint16(c.Type.ID)).Encode()
			c.Data = append(tid, c.Data...)
		}
		runCase(t, "TestDecodeService", c, true)
	})
}

// TestTowers: deep nesting. Depths up to 10^5 (a 100 KB..500 KB message) must
// decode or fail cleanly; deeper towers are the listed known finding.
func TestTowers(t *testing.T) {
	depths := []int{10, 1000, 10000, 50000, 100000}
	rapid.Check(t, func(t *rapid.T) {
		d := rapid.SampledFrom(depths).Draw(t, "depth")
		kind, b := hostile.Tower(t, d)
		typ := reflect.TypeOf(&ua.Variant{})
		name := "Variant"
		if kind == "diag" {
			typ = reflect.TypeOf(&ua.DiagnosticInfo{})
			name = "DiagnosticInfo"
		}
		c := hostile.Case{Type: gen.TypeInfo{Name: name, Kind: "builtin", Type: typ}, Data: b, Class: fmt.Sprintf("tower:%s:%d", kind, d)}
		runCase(t, "TestTowers", c, false)
	})
}

func TestReplay(t *testing.T) {
	rp, err := ev.LoadReplay()
	if err != nil {
		t.Fatal(err)
	}
	if rp == nil {
		t.Skip("no VERIF_REPLAY")
	}
	var c caseT
	if err := json.Unmarshal(rp.Case, &c); err != nil {
		t.Fatal(err)
	}
	data, _ := hex.DecodeString(c.Hex)
	fmt.Println("REPLAYED structured")
	if c.Type == "DecodeService" {
		if msg, _ := judge(nil, data, true); msg != "" {
			t.Fatalf("property C02 violated: %s", msg)
		}
		return
	}
	for _, ti := range gen.Universe() {
		if ti.Name == c.Type {
			if msg, _ := judge(ti.Type, data, false); msg != "" {
				t.Fatalf("property C02 violated: %s: %s", c.Type, msg)
			}
		}
	}
}
