package c02

import (
	"encoding/hex"
	"fmt"
	"os"
	"os/exec"
	"reflect"
	"strings"
	"testing"

	"github.com/gopcua/opcua/ua"

	"verif/pkg/ev"
	"verif/pkg/gen"
)

// maxFuzzInput keeps coverage-guided inputs below the size at which the known
// unbounded recursion (KF-C02-1) can exhaust the stack.
const maxFuzzInput = 256 << 10

// FuzzDecodeAny is the native (coverage-guided) fuzz target of the thorough
// tier: (type index, bytes) -> the C02 oracle (no panic, bounded memory and
// time). Seeds: valid encodings of zero values plus hostile constants.
func FuzzDecodeAny(f *testing.F) {
	uni := gen.Universe()
	for i, ti := range uni {
		if i%7 == 0 {
			// (a zero struct with nil pointers is not an input Encode promises to take)
			var b []byte
			func() {
				defer func() { _ = recover() }()
				b, _ = ua.Encode(reflect.New(ti.Type.Elem()).Interface())
			}()
			f.Add(uint16(i), b)
		}
	}
	vi := 0
	for i, ti := range uni {
		if ti.Name == "Variant" {
			vi = i
		}
	}
	for _, h := range []string{"8fffffffff", "c6feffffff", "c600000000030000000000010000000100100000", "46ffffff0f", "18181818181801", "d80100000001000000ffffff7f",
		"1601004101010d000000", "17ff01", "8c02000000ffffffff00000000"} {
		b, _ := hex.DecodeString(h)
		f.Add(uint16(vi), b)
	}
	f.Fuzz(func(t *testing.T, idx uint16, data []byte) {
		if len(data) > maxFuzzInput {
			rec.Excluded("fuzz-input-over-256KiB")
			return
		}
		ti := uni[int(idx)%len(uni)]
		msg, o := judge(ti.Type, data, false)
		rec.Case(o.err == nil || o.n >= 8, ev.Hash(ti.Name, data), "class:fuzz")
		if msg != "" {
			cc := caseT{Type: ti.Name, Class: "fuzz", Hex: hex.EncodeToString(data), Len: len(data)}
			rec.WriteReplay("FuzzDecodeAny", cc, msg)
			t.Fatalf("property C02 violated: %s: %s", ti.Name, msg)
		}
	})
}

// TestTowerLimit documents the open finding KF-C02-1: nesting deeper than the
// stack allows kills the process. The tower is decoded in a child process; if
// the child dies with a stack overflow the listed finding is confirmed (and
// counted as excluded), any other death is a violation.
func TestTowerLimit(t *testing.T) {
	if os.Getenv("VERIF_TOWER_CHILD") != "" {
		d := 3_000_000
		b := make([]byte, d+2)
		for i := 0; i < d; i++ {
			b[i] = 0x18
		}
		b[d], b[d+1] = 1, 1
		v := new(ua.Variant)
		_, err := v.Decode(b)
		fmt.Println("TOWER-CHILD-RETURNED", err)
		return
	}
	cmd := exec.Command(os.Args[0], "-test.run", "^TestTowerLimit$", "-test.v")
	cmd.Env = append(os.Environ(), "VERIF_TOWER_CHILD=1", "VERIF_PART_DIR=", "GOTRACEBACK=none")
	out, err := cmd.CombinedOutput()
	s := string(out)
	c := caseT{Type: "Variant", Class: "tower:variant:3000000", Len: 3_000_002}
	switch {
	case err == nil && strings.Contains(s, "TOWER-CHILD-RETURNED"):
		rec.Case(true, ev.Hash("tower-limit", "ok"), "class:tower-3e6:returned")
	case strings.Contains(s, "stack overflow") || strings.Contains(s, "stack exceeds"):
		rec.Case(true, ev.Hash("tower-limit", "overflow"), "class:tower-3e6:fatal-stack-overflow")
		if !rec.Known("tower:fatal-stack-overflow") {
			rec.Fail(t, "TestTowerLimit", c, "decoding a 3 MB Variant-in-Variant tower ended the process with a fatal stack overflow")
		}
	default:
		if len(s) > 600 {
			s = s[len(s)-600:]
		}
		rec.Fail(t, "TestTowerLimit", c, "child decoding a 3 MB tower died: %v: %s", err, s)
	}
}
