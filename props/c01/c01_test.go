// Package c01 decides property C01: the binary codec round-trips every value of
// every protocol type. Generator: pkg/gen (reflection-driven over the type
// universe enumerated through the public API, plus specialists); oracle:
// round-trip under the documented normalisations (pkg/eq), exact consumption,
// suffix independence, and DecodeService for services.
package c01

import (
	"encoding/hex"
	"encoding/json"
	"fmt"
	"reflect"
	"testing"

	"github.com/gopcua/opcua/ua"
	"github.com/gopcua/opcua/uacp"
	"github.com/gopcua/opcua/uasc"
	"pgregory.net/rapid"

	"verif/pkg/eq"
	"verif/pkg/ev"
	"verif/pkg/gen"
)

func TestMain(m *testing.M) { ev.Main(m) }

var rec = ev.For("C01", "for every type found by probing the service and extension-object registries through the public API (plus the hand-written built-ins and transport headers) rapid generates values via reflection (full-range ints, special floats, empty/multi-byte/invalid-UTF-8 strings, nil/empty/populated slices, all mask combinations, all Variant type ids x shapes); non-trivial = encoding longer than the type's zero-value encoding; distinct by hash of (type, encoded bytes)")

type caseT struct {
	Type  string `json:"type"`
	Hex   string `json:"encoded_hex,omitempty"`
	Value string `json:"value_go_syntax"`
}

func safeEncode(v any) (b []byte, err error, pan any) {
	defer func() {
		if r := recover(); r != nil {
			pan = r
		}
	}()
	b, err = ua.Encode(v)
	return
}

func safeDecode(b []byte, w any) (n int, err error, pan any) {
	defer func() {
		if r := recover(); r != nil {
			pan = r
		}
	}()
	n, err = ua.Decode(b, w)
	return
}

var zeroLen = map[reflect.Type]int{}

func zeroEncLen(typ reflect.Type) int {
	if n, ok := zeroLen[typ]; ok {
		return n
	}
	b, _, _ := safeEncode(reflect.New(typ.Elem()).Interface())
	zeroLen[typ] = len(b)
	return len(b)
}

// roundTrip is the oracle; returns "" when the property holds for v.
func roundTrip(ti gen.TypeInfo, v any) (msg string, enc []byte) {
	b, err, pan := safeEncode(v)
	if pan != nil {
		return fmt.Sprintf("Encode panicked: %v", pan), nil
	}
	if err != nil {
		return fmt.Sprintf("Encode failed: %v", err), nil
	}
	w := reflect.New(ti.Type.Elem()).Interface()
	n, err, pan := safeDecode(b, w)
	if pan != nil {
		return fmt.Sprintf("Decode panicked: %v", pan), b
	}
	if err != nil {
		return fmt.Sprintf("Decode of own encoding failed: %v", err), b
	}
	if n != len(b) {
		return fmt.Sprintf("Decode consumed %d of %d bytes", n, len(b)), b
	}
	if d := eq.Diff(v, w); d != "" {
		return "decoded value differs: " + d, b
	}
	// suffix independence: trailing bytes must not change what is decoded
	junk := append(append([]byte{}, b...), 0xa5, 0x5a, 0xff, 0x00, 0x01, 0x80, 0x7f, 0xfe)
	w2 := reflect.New(ti.Type.Elem()).Interface()
	n2, err, pan := safeDecode(junk, w2)
	if pan != nil || err != nil {
		return fmt.Sprintf("Decode with trailing bytes failed: err=%v panic=%v", err, pan), b
	}
	if n2 != len(b) {
		return fmt.Sprintf("with trailing bytes Decode consumed %d instead of %d", n2, len(b)), b
	}
	if d := eq.Diff(v, w2); d != "" {
		return "with trailing bytes decoded value differs: " + d, b
	}
	if ti.Kind == "service" {
		tid, _ := ua.NewFourByteNodeID(0, uint16(ti.ID)).Encode()
		if ti.ID > 65535 {
			tid, _ = ua.NewNumericNodeID(0, ti.ID).Encode()
		}
		_, sv, err := ua.DecodeService(append(tid, b...))
		if err != nil {
			return fmt.Sprintf("DecodeService failed: %v", err), b
		}
		if d := eq.Diff(v, sv); d != "" {
			return "DecodeService value differs: " + d, b
		}
	}
	return "", b
}

func extraTypes() []gen.TypeInfo {
	var out []gen.TypeInfo
	for _, v := range []any{&uacp.Hello{}, &uacp.Acknowledge{}, &uacp.ReverseHello{}, &uacp.Error{},
		&uasc.SequenceHeader{}, &uasc.SymmetricSecurityHeader{}, &uasc.AsymmetricSecurityHeader{}} {
		t := reflect.TypeOf(v)
		out = append(out, gen.TypeInfo{Name: t.String()[1:], Kind: "transport", Type: t})
	}
	return out
}

func runCase(t *rapid.T, ti gen.TypeInfo, test string, v any, classes ...string) {
	msg, b := roundTrip(ti, v)
	nt := len(b) > zeroEncLen(ti.Type)
	rec.Case(nt, ev.Hash(ti.Name, b), append(classes, "kind:"+ti.Kind)...)
	c := caseT{Type: ti.Name, Hex: hex.EncodeToString(b), Value: trunc(fmt.Sprintf("%+v", v), 1500)}
	if nt && rec.WantSample() {
		rec.Sample(c)
	}
	if msg != "" {
		rec.Fail(t, test, c, "%s: %s", ti.Name, msg)
	}
}

func trunc(s string, n int) string {
	if len(s) > n {
		return s[:n] + "…"
	}
	return s
}

// TestRoundTripTypes: every type of the universe gets -rapid.checks cases.
func TestRoundTripTypes(t *testing.T) {
	uni := append(gen.Universe(), extraTypes()...)
	nsvc, neo := 0, 0
	for _, ti := range uni {
		switch ti.Kind {
		case "service":
			nsvc++
		case "extobj":
			neo++
		}
	}
	if nsvc < 60 || nsvc+neo < 280 {
		// the probe itself is broken: infrastructure problem, not a violation
		// (a failure without a replay file makes the driver exit 2)
		t.Fatalf("INFRA: type universe probe found only %d services / %d further extension objects", nsvc, neo)
	}
	rec.Extra("types_services", nsvc)
	rec.Extra("types_extension_objects", neo)
	rec.Extra("types_total", len(uni))
	sh, nsh := ev.Shard()
	g := gen.Default
	for i, ti := range uni {
		if i%nsh != sh {
			continue
		}
		ti := ti
		t.Run(ti.Name, func(t *testing.T) {
			rapid.Check(t, func(t *rapid.T) {
				v := g.Value(t, ti.Type)
				runCase(t, ti, "TestRoundTripTypes/"+ti.Name, v)
			})
		})
	}
}

// TestVariant concentrates on Variant: 26 type ids x 6 shapes.
func TestVariant(t *testing.T) {
	ti := gen.TypeInfo{Name: "Variant", Kind: "builtin", Type: reflect.TypeOf(&ua.Variant{})}
	g := gen.Default
	rapid.Check(t, func(t *rapid.T) {
		var v *ua.Variant
		var id ua.TypeID
		var shape string
		func() {
			defer func() {
				if r := recover(); r != nil {
					ve, ok := r.(gen.VariantError)
					if !ok {
						panic(r)
					}
					rec.Fail(t, "TestVariant", caseT{Type: "Variant", Value: trunc(fmt.Sprintf("%#v", ve.Value), 1500)}, "ua.NewVariant rejects a legal value: %v", ve)
				}
			}()
			v, id, shape = g.VariantInfo(t, 0)
		}()
		runCase(t, ti, "TestVariant", v, fmt.Sprintf("variant:%s", shape), fmt.Sprintf("vtype:%d", id))
	})
}

// TestDataValue: all 64 mask combinations.
func TestDataValue(t *testing.T) {
	ti := gen.TypeInfo{Name: "DataValue", Kind: "builtin", Type: reflect.TypeOf(&ua.DataValue{})}
	g := gen.Default
	rapid.Check(t, func(t *rapid.T) {
		v := g.DataValue(t, 0)
		runCase(t, ti, "TestDataValue", v, fmt.Sprintf("dvmask:%02x", v.EncodingMask))
	})
}

// TestDiagnosticInfo: all mask bits, nesting.
func TestDiagnosticInfo(t *testing.T) {
	ti := gen.TypeInfo{Name: "DiagnosticInfo", Kind: "builtin", Type: reflect.TypeOf(&ua.DiagnosticInfo{})}
	g := gen.Default
	rapid.Check(t, func(t *rapid.T) {
		v := g.DiagnosticInfo(t, 0)
		depth := 0
		for d := v; d.InnerDiagnosticInfo != nil; d = d.InnerDiagnosticInfo {
			depth++
		}
		runCase(t, ti, "TestDiagnosticInfo", v, fmt.Sprintf("di-depth:%d", depth))
	})
}

// TestNodeIDs: NodeID, ExpandedNodeID, ExtensionObject, LocalizedText.
func TestNodeIDs(t *testing.T) {
	g := gen.Default
	rapid.Check(t, func(t *rapid.T) {
		switch rapid.IntRange(0, 3).Draw(t, "which") {
		case 0:
			v := gen.NodeID(t)
			runCase(t, gen.TypeInfo{Name: "NodeID", Kind: "builtin", Type: reflect.TypeOf(v)}, "TestNodeIDs", v, fmt.Sprintf("nodeid:%d", v.Type()))
		case 1:
			v := gen.ExpandedNodeID(t)
			runCase(t, gen.TypeInfo{Name: "ExpandedNodeID", Kind: "builtin", Type: reflect.TypeOf(v)}, "TestNodeIDs", v,
				fmt.Sprintf("expnodeid:uri=%v,idx=%v", v.HasNamespaceURI(), v.HasServerIndex()))
		case 2:
			v := g.ExtensionObject(t, 0)
			if v == nil {
				v = ua.NewExtensionObject(nil)
			}
			runCase(t, gen.TypeInfo{Name: "ExtensionObject", Kind: "builtin", Type: reflect.TypeOf(v)}, "TestNodeIDs", v, fmt.Sprintf("extobj-mask:%d", v.EncodingMask))
		case 3:
			v := gen.LocalizedText(t)
			runCase(t, gen.TypeInfo{Name: "LocalizedText", Kind: "builtin", Type: reflect.TypeOf(v)}, "TestNodeIDs", v, fmt.Sprintf("ltmask:%d", v.EncodingMask))
		}
	})
}

// TestReplay re-runs a saved case: the saved encoding is decoded and the
// decoded value is pushed through the round-trip oracle.
func TestReplay(t *testing.T) {
	rp, err := ev.LoadReplay()
	if err != nil {
		t.Fatal(err)
	}
	if rp == nil {
		t.Skip("no VERIF_REPLAY")
	}
	var c caseT
	if err := json.Unmarshal(rp.Case, &c); err != nil {
		t.Fatal(err)
	}
	if c.Hex == "" {
		t.Skip("case has no encoding (Encode itself failed); replayed through rapid's fail file")
	}
	b, _ := hex.DecodeString(c.Hex)
	for _, ti := range append(gen.Universe(), extraTypes()...) {
		if ti.Name != c.Type {
			continue
		}
		w := reflect.New(ti.Type.Elem()).Interface()
		if _, err, pan := safeDecode(b, w); err != nil || pan != nil {
			t.Fatalf("property C01 violated: saved encoding of %s does not decode: %v %v", c.Type, err, pan)
		}
		if msg, _ := roundTrip(ti, w); msg != "" {
			t.Fatalf("property C01 violated: %s: %s", c.Type, msg)
		}
	}
}
