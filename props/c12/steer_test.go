package c12

import (
	"context"
	"encoding/json"
	"fmt"
	"testing"
	"time"

	"github.com/gopcua/opcua/ua"
	"github.com/gopcua/opcua/uacp"
	"pgregory.net/rapid"

	"verif/pkg/chanpair"
	"verif/pkg/ev"
	"verif/pkg/keys"
	"verif/pkg/netx"
)

// steerT: a genuine gopcua sender (client -> server requests, or server ->
// client responses) whose sequence number is set Back chunks before gopcua's
// wrap point, so that its stream of signed / encrypted chunks crosses the wrap.
// Under a secured policy the chunks cannot be re-cut, interleaved or renumbered
// by a third party, so this is what frame-level access to genuine chunks allows.
type steerT struct {
	Policy  string `json:"policy"`
	Encrypt bool   `json:"encrypt"`
	Dir     string `json:"dir"` // "c2s" | "s2c"
	Buf     uint32 `json:"buf"`
	Back    int    `json:"back"`  // chunks (>= 1) the sender still sends before it wraps: a conforming sender has sent a number > UInt32.Max-1024 before it wraps
	Exact   bool   `json:"exact"` // first message body is an exact multiple of the max chunk body (empty final chunk)
	Msgs    []struct {
		Tmpl int `json:"tmpl"`
		Size int `json:"size"`
		Fill int `json:"fill"`
	} `json:"msgs"`
}

// gopcua wraps when the incremented number exceeds MaxUint32-1023.
const gopcuaLastBeforeWrap = 0xffffffff - 1023

func genSteered(t *rapid.T) steerT {
	var c steerT
	c.Policy = rapid.SampledFrom([]string{ua.SecurityPolicyURIBasic256Sha256, ua.SecurityPolicyURIBasic256Sha256, ua.SecurityPolicyURINone}).Draw(t, "policy")
	c.Encrypt = rapid.Bool().Draw(t, "encrypt")
	c.Dir = rapid.SampledFrom([]string{"c2s", "s2c"}).Draw(t, "dir")
	c.Buf = rapid.SampledFrom([]uint32{8192, 8192, 9000, 16384, 65535}).Draw(t, "buf")
	c.Exact = rapid.IntRange(0, 3).Draw(t, "exact") == 0
	n := rapid.IntRange(1, 6).Draw(t, "n")
	for i := 0; i < n; i++ {
		var m struct {
			Tmpl int `json:"tmpl"`
			Size int `json:"size"`
			Fill int `json:"fill"`
		}
		m.Tmpl = rapid.IntRange(0, 2).Draw(t, "tmpl")
		m.Fill = rapid.IntRange(0, 255).Draw(t, "fill")
		if rapid.Bool().Draw(t, "big") {
			m.Size = rapid.IntRange(int(c.Buf)-200, 6*int(c.Buf)).Draw(t, "size")
		} else {
			m.Size = rapid.IntRange(8, 2000).Draw(t, "size")
		}
		c.Msgs = append(c.Msgs, m)
	}
	c.Back = rapid.IntRange(1, 12).Draw(t, "back")
	return c
}

func checkSteered(c steerT) (msg string, classes []string, err error) {
	if c.Buf < 8192 || c.Buf > 65535 || len(c.Msgs) == 0 || len(c.Msgs) > 8 || c.Back < 1 || (c.Dir != "c2s" && c.Dir != "s2c") {
		return "", nil, fmt.Errorf("malformed case")
	}
	mode := chanpair.ModeFor(c.Policy, c.Encrypt)
	ack := func() *uacp.Acknowledge {
		return &uacp.Acknowledge{ReceiveBufSize: c.Buf, SendBufSize: c.Buf, MaxChunkCount: 512, MaxMessageSize: 4 << 20}
	}
	p, err := chanpair.New(chanpair.Options{Policy: c.Policy, Mode: mode, ClientKey: keys.Get("a", 2048), ServerKey: keys.Get("b", 2048),
		ClientACK: ack(), ServerACK: ack(), Tap: true, RequestTimeout: waitBound})
	if err != nil {
		return "", nil, err
	}
	defer p.Close()
	kind := "server"
	sender := p.Client
	if c.Dir == "s2c" {
		kind = "client"
		sender = p.Server
	}
	maxBody := int(sender.VerifActiveMaxBodySize())
	if !sender.VerifSetSequenceNumber(gopcuaLastBeforeWrap - uint32(c.Back)) {
		return "", nil, fmt.Errorf("sender channel has no active instance")
	}
	// the receiver is moved along (it may reject a number that is more than 2^31 ahead)
	if c.Dir == "s2c" {
		p.Client.VerifSetReceivedSequenceNumber(gopcuaLastBeforeWrap - uint32(c.Back))
	} else {
		p.Server.VerifSetReceivedSequenceNumber(gopcuaLastBeforeWrap - uint32(c.Back))
	}
	before := len(p.Tap.Frames())

	ctx, cancel := context.WithTimeout(context.Background(), 2*waitBound)
	defer cancel()
	type delivered struct {
		got, want []byte
		err       error
	}
	var out []delivered
	for i, m := range c.Msgs {
		size := m.Size
		svc := service(kind, m.Tmpl, size, m.Fill)
		if c.Exact && i == 0 && maxBody > 0 {
			// make the encoded body an exact multiple of the maximal chunk body
			b, _ := reencode(svc)
			tmpl := m.Tmpl % 3
			if tmpl == 0 { // one ByteString: every payload byte is one body byte
				k := (len(b) + maxBody - 1) / maxBody
				if k < 2 {
					k = 2
				}
				size += k*maxBody - len(b)
				svc = service(kind, m.Tmpl, size, m.Fill)
			}
		}
		var d delivered
		if c.Dir == "c2s" {
			req := svc.(ua.Request)
			sent := make(chan error, 1)
			go func() { sent <- p.Client.SendRequest(ctx, req, nil, nil) }()
			r := p.ServerReceive(waitBound)
			if r == nil {
				return "", nil, errTimeout{"server Receive did not return"}
			}
			if e := <-sent; e != nil {
				return "", nil, fmt.Errorf("SendRequest: %v", e)
			}
			// SendRequest has filled in the request header; that is what was sent
			d.want, _ = reencode(req)
			d.err = r.Err
			if r.Err == nil {
				d.got, _ = reencode(r.Request())
			}
		} else {
			resp := svc.(ua.Response)
			done := make(chan error, 1)
			go func() {
				done <- p.Client.SendRequest(ctx, &ua.ReadRequest{NodesToRead: []*ua.ReadValueID{}}, nil, func(v ua.Response) error {
					d.got, _ = reencode(v)
					return nil
				})
			}()
			r := p.ServerReceive(waitBound)
			if r == nil || r.Err != nil {
				return "", nil, fmt.Errorf("server Receive of the request: %+v", r)
			}
			d.want, _ = reencode(resp)
			if e := p.Server.SendResponseWithContext(ctx, r.RequestID, resp); e != nil {
				return "", nil, fmt.Errorf("SendResponse: %v", e)
			}
			select {
			case d.err = <-done:
			case <-time.After(waitBound + 5*time.Second):
				return "", nil, errTimeout{"SendRequest did not return"}
			}
			if d.err == ua.StatusBadTimeout {
				return "", nil, errTimeout{"request timed out although the response was written"}
			}
		}
		out = append(out, d)
	}
	// count the sender's chunks on the wire
	dir := netx.C2S
	if c.Dir == "s2c" {
		dir = netx.S2C
	}
	chunks, multi, emptyFinal := 0, false, false
	for _, f := range p.Tap.Frames()[before:] {
		if f.Dir != dir || f.Type() != "MSG" {
			continue
		}
		chunks++
		if f.Chunk() == 'C' {
			multi = true
		}
		if f.Chunk() == 'F' && mode == ua.MessageSecurityModeNone && len(f.Data) == 24 {
			emptyFinal = true
		}
	}
	classes = append(classes, "steered:"+c.Dir, fmt.Sprintf("steered-policy:%s/%v", c.Policy[len("http://opcfoundation.org/UA/SecurityPolicy#"):], mode))
	if multi {
		classes = append(classes, "steered-multi-chunk")
	}
	if emptyFinal {
		classes = append(classes, "steered-empty-final-chunk(None)")
	}
	if chunks > c.Back {
		classes = append(classes, "steered-wrap:crossed")
	} else {
		classes = append(classes, "steered-wrap:none")
	}
	for i, d := range out {
		if d.err != nil {
			return fmt.Sprintf("steered %s message %d (%d bytes) was not delivered: %v", c.Dir, i, len(d.want), d.err), classes, nil
		}
		if !sameMessage(d.got, d.want) {
			return fmt.Sprintf("steered %s message %d: delivered message differs from the one sent (%d vs %d bytes, first difference at %d)", c.Dir, i, len(d.got), len(d.want), firstDiff(d.got, d.want)), classes, nil
		}
	}
	return "", classes, nil
}

func TestSteered(t *testing.T) {
	rec.Assume("TestSteered: the sender is gopcua itself (assumed conforming, see C08), steered with VerifSetSequenceNumber to cross its wrap (onto 1); split points are gopcua's (maximal chunks, incl. an empty final chunk)")
	rapid.Check(t, func(t *rapid.T) {
		c := genSteered(t)
		var msg string
		var classes []string
		var err error
		for attempt := 0; attempt < 3; attempt++ {
			msg, classes, err = checkSteered(c)
			if _, ok := err.(errTimeout); !ok {
				break
			}
		}
		if to, ok := err.(errTimeout); ok {
			msg, err = "blocked (confirmed 3 times): "+to.what, nil
		}
		if err != nil {
			t.Fatalf("infrastructure: %v", err)
		}
		b, _ := json.Marshal(c)
		crossed := false
		for _, cl := range classes {
			if cl == "steered-wrap:crossed" {
				crossed = true
			}
		}
		rec.Case(crossed, ev.Hash(b), classes...)
		if crossed && rec.WantSample() {
			rec.Sample(c)
		}
		if msg != "" {
			rec.Fail(t, "TestSteered", c, "%s", msg)
		}
	})
}
