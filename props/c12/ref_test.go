package c12

import (
	"fmt"
	"net"
	"time"

	"github.com/gopcua/opcua/ua"
	"github.com/gopcua/opcua/uapolicy"
	"github.com/gopcua/opcua/uasc"

	"verif/pkg/chanpair"
	"verif/pkg/keys"
	"verif/pkg/refcodec"
	"verif/pkg/refnone"
)

// refEnd is the reference peer of a case: the hand-written policy-None peer
// (pkg/refnone) or, for a secured policy, the independent reference codec
// (pkg/refcodec: RSA / AES / HMAC from the Go standard library).
type refEnd struct {
	conn net.Conn
	none *refnone.Channel
	sess *refcodec.Session
}

func refPolicy(c caseT) (*refcodec.Policy, refcodec.Mode) {
	if c.Policy == "" {
		return refcodec.PolicyByURI("None"), refcodec.ModeNone
	}
	if c.Encrypt {
		return refcodec.PolicyByURI(c.Policy), refcodec.ModeSignAndEncrypt
	}
	return refcodec.PolicyByURI(c.Policy), refcodec.ModeSign
}

// maxChunkBody is the largest body a chunk of the negotiated size can carry.
func maxChunkBody(c caseT) int {
	if c.Policy == "" {
		return int(c.Buf) - refnone.SymHeaderLen
	}
	p, m := refPolicy(c)
	return refcodec.SymMaxBody(p, m, int(c.Buf))
}

func nonce(p *refcodec.Policy, seed byte) []byte {
	b := make([]byte, p.NonceLen)
	for i := range b {
		b[i] = seed + byte(i*7)
	}
	return b
}

// dialRef connects the reference client: HEL/ACK and the OPN exchange; the OPN
// request carries sequence number opnSeq.
func dialRef(c caseT, addr, endpoint string, opnSeq uint32) (*refEnd, error) {
	if c.Policy == "" {
		rc, err := refnone.Dial(addr, endpoint, refnone.Limits{RecvBuf: c.Buf, SendBuf: c.Buf}, 10*time.Second)
		if err != nil {
			return nil, err
		}
		ch, err := refnone.OpenAsClient(rc, refnone.NewSeq(opnSeq, 0xffffffff, 0), 1, 10*time.Second)
		if err != nil {
			rc.Close()
			return nil, err
		}
		return &refEnd{conn: rc.Conn, none: ch}, nil
	}
	conn, err := net.DialTimeout("tcp", addr, 10*time.Second)
	if err != nil {
		return nil, err
	}
	pol, mode := refPolicy(c)
	ka, kb := keys.Get("a", 2048), keys.Get("b", 2048)
	s := refcodec.NewClientSession(conn, pol, mode, ka.Key, ka.Cert, kb.Cert)
	if _, err := s.Hello(refcodec.Hello{ReceiveBufferSize: c.Buf, SendBufferSize: c.Buf, EndpointURL: endpoint}); err != nil {
		conn.Close()
		return nil, fmt.Errorf("HEL: %w", err)
	}
	if _, err := s.OpenRequest(1, opnSeq, false, nonce(pol, 3), 3600_000); err != nil {
		conn.Close()
		return nil, fmt.Errorf("OPN request: %w", err)
	}
	if _, _, err := s.ReadOpenResponse(); err != nil {
		conn.Close()
		return nil, fmt.Errorf("OPN response: %w", err)
	}
	return &refEnd{conn: conn, sess: s}, nil
}

// acceptRef plays the reference server: HEL/ACK, reads the client's OPN request
// and answers it with sequence number opnSeq, channel 4711, token 815.
func acceptRef(c caseT, ln net.Listener, opnSeq uint32) (*refEnd, error) {
	if c.Policy == "" {
		rc, err := (&refnone.Listener{Listener: ln}).Accept(refnone.Limits{RecvBuf: c.Buf, SendBuf: c.Buf}, 10*time.Second)
		if err != nil {
			return nil, err
		}
		ch, err := refnone.OpenAsServer(rc, refnone.NewSeq(opnSeq, 0xffffffff, 0), 4711, 815, 10*time.Second)
		if err != nil {
			rc.Close()
			return nil, err
		}
		return &refEnd{conn: rc.Conn, none: ch}, nil
	}
	if tl, ok := ln.(*net.TCPListener); ok {
		tl.SetDeadline(time.Now().Add(10 * time.Second))
	}
	conn, err := ln.Accept()
	if err != nil {
		return nil, err
	}
	kb := keys.Get("b", 2048)
	s := refcodec.NewServerSession(conn, kb.Key, kb.Cert, 4711, 815)
	if _, err := s.AcceptHello(refcodec.Acknowledge{ReceiveBufferSize: c.Buf, SendBufferSize: c.Buf}); err != nil {
		conn.Close()
		return nil, fmt.Errorf("HEL: %w", err)
	}
	req, ch, err := s.ReadOpenRequest()
	if err != nil {
		conn.Close()
		return nil, fmt.Errorf("OPN request: %w", err)
	}
	if _, err := s.OpenResponse(ch.RequestID, opnSeq, req.RequestHeader.RequestHandle, nonce(s.Policy, 9), req.RequestedLifetime); err != nil {
		conn.Close()
		return nil, fmt.Errorf("OPN response: %w", err)
	}
	return &refEnd{conn: conn, sess: s}, nil
}

func (r *refEnd) ids() (channel, token uint32) {
	if r.none != nil {
		return r.none.ChannelID, r.none.TokenID
	}
	return r.sess.ChannelID, r.sess.TokenID
}

// chunk builds one MSG chunk of this end, secured as the channel requires.
func (r *refEnd) chunk(typ byte, reqID, seq uint32, data []byte) ([]byte, error) {
	if r.none != nil {
		return refnone.SymChunk("MSG", typ, r.none.ChannelID, r.none.TokenID, seq, reqID, data), nil
	}
	s := r.sess
	return refcodec.BuildSymChunk(s.Policy, s.Mode, s.SendKeys(), refcodec.SymHeader{MessageType: "MSG", ChunkType: typ,
		SecureChannelID: s.ChannelID, TokenID: s.TokenID, SequenceNumber: seq, RequestID: reqID}, data, refcodec.SymOptions{})
}

// readRequest reads one single-chunk request sent by the gopcua client.
func (r *refEnd) readRequest() (uint32, any, error) {
	r.conn.SetReadDeadline(time.Now().Add(waitBound))
	defer r.conn.SetReadDeadline(time.Time{})
	if r.none != nil {
		f, err := refnone.ReadFrame(r.conn, 1<<16)
		if err != nil {
			return 0, nil, err
		}
		q, err := refnone.ParseChunk(f)
		if err != nil {
			return 0, nil, err
		}
		if q.MsgType != "MSG" || q.ChunkType != 'F' || q.ChannelID != 4711 || q.TokenID != 815 {
			return 0, nil, fmt.Errorf("unexpected request chunk %s%c channel %d token %d", q.MsgType, q.ChunkType, q.ChannelID, q.TokenID)
		}
		_, svc, err := ua.DecodeService(q.Data)
		return q.ReqID, svc, err
	}
	r.sess.Timeout = waitBound
	m, err := r.sess.ReadMessage()
	if err != nil {
		return 0, nil, err
	}
	return m.RequestID, m.Service, nil
}

// gopcua side configurations

func serverChannelConfig(c caseT) *uasc.Config {
	cfg := &uasc.Config{SecurityPolicyURI: ua.SecurityPolicyURINone, SecurityMode: ua.MessageSecurityModeNone, Lifetime: 3600_000}
	if c.Policy != "" {
		kb := keys.Get("b", 2048)
		cfg.Certificate, cfg.LocalKey = kb.Cert, kb.Key
	}
	return cfg
}

func clientChannelConfig(c caseT) *uasc.Config {
	cfg := &uasc.Config{SecurityPolicyURI: ua.SecurityPolicyURINone, SecurityMode: ua.MessageSecurityModeNone, Lifetime: 3600_000, RequestTimeout: waitBound, RequestIDSeed: c.ReqSeed}
	if c.Policy != "" {
		ka, kb := keys.Get("a", 2048), keys.Get("b", 2048)
		cfg.SecurityPolicyURI = c.Policy
		cfg.SecurityMode = chanpair.ModeFor(c.Policy, c.Encrypt)
		cfg.Certificate, cfg.LocalKey = ka.Cert, ka.Key
		cfg.RemoteCertificate = kb.Cert
		cfg.Thumbprint = uapolicy.Thumbprint(kb.Cert)
	}
	return cfg
}
