// Package c12 decides property C12: chunk streams from any conforming peer are
// reassembled correctly.
//
// TestReassembly (policy None): the hand-written reference peer of pkg/refnone
// emits conforming chunk streams into a gopcua channel — a server channel read
// by a Receive loop, or a client channel whose SendRequest handlers wait for
// the responses — and a reassembly model written from Part 6 says what must
// come out. TestSteered (one secured policy): a genuine gopcua sender is steered
// (sequence number set close to the wrap, buffer sizes drawn) so that its
// signed / encrypted multi-chunk messages cross the wrap-around.
package c12

import (
	"bytes"
	"context"
	"encoding/json"
	"fmt"
	"io"
	"net"
	"sort"
	"strings"
	"sync"
	"testing"
	"time"

	"github.com/gopcua/opcua/ua"
	"github.com/gopcua/opcua/uacp"
	"github.com/gopcua/opcua/uasc"
	"pgregory.net/rapid"

	"verif/pkg/eq"
	"verif/pkg/ev"
	"verif/pkg/refcodec"
	"verif/pkg/refnone"
)

func TestMain(m *testing.M) { ev.Main(m) }

var rec = ev.For("C12", "conforming chunk streams from independent reference senders (policy None: pkg/refnone; secured policies, Sign and SignAndEncrypt: pkg/refcodec; server kind: Receive loop, client kind: SendRequest handlers): 1-8 messages, arbitrary split points incl. an empty final chunk, start sequence number anywhere incl. streams crossing the Part 6 wrap onto 0/1/1023/other <1024, chunk-wise interleaving of multi-chunk messages with distinct request ids, abort chunks; plus genuine gopcua senders (None / Basic256Sha256) steered across their wrap; non-trivial = crosses the wrap, or interleaves >= 2 request ids, or contains an abort; distinct by hash of the case")

// ---------------------------------------------------------------------------
// Case (plain data)

type msgT struct {
	ReqID      uint32 `json:"req_id"` // server kind; the client kind uses the ids gopcua assigns
	Tmpl       int    `json:"tmpl"`
	Size       int    `json:"size"`
	Fill       int    `json:"fill"`
	Cuts       []int  `json:"cuts"`        // ascending offsets inside the encoded body = chunk boundaries
	EmptyFinal bool   `json:"empty_final"` // the final chunk carries no body bytes
	Abort      bool   `json:"abort"`
	AbortAfter int    `json:"abort_after"` // number of intermediate chunks sent before the abort chunk
	Status     uint32 `json:"status"`
	Reason     string `json:"reason"`
}

type caseT struct {
	Kind      string `json:"kind"`    // "server" (gopcua server channel receives requests) | "client"
	Policy    string `json:"policy"`  // "" = None (reference: pkg/refnone), else a secured policy URI (reference: pkg/refcodec)
	Encrypt   bool   `json:"encrypt"` // secured policy: SignAndEncrypt instead of Sign
	Buf       uint32 `json:"buf"`     // negotiated buffer size (both directions)
	StartSeq  uint32 `json:"start_seq"`
	WrapAfter uint32 `json:"wrap_after"`
	WrapTo    uint32 `json:"wrap_to"`
	ReqSeed   uint32 `json:"req_seed"` // client kind: RequestIDSeed of the gopcua client
	Msgs      []msgT `json:"msgs"`
	Order     []int  `json:"order"`      // emission schedule: index of the message whose next chunk is sent
	MaxChunks uint32 `json:"max_chunks"` // server kind: the receiver's MaxChunkCount (0 = 512)
}

func pattern(n, fill int) []byte {
	b := make([]byte, n)
	for i := range b {
		b[i] = byte(fill + i*7 + (i>>8)*13 + (i>>16)*101)
	}
	return b
}

func reqHeader() *ua.RequestHeader {
	return &ua.RequestHeader{AuthenticationToken: ua.NewTwoByteNodeID(0), Timestamp: time.Unix(1_700_000_000, 0).UTC(), AdditionalHeader: ua.NewExtensionObject(nil)}
}

func respHeader() *ua.ResponseHeader {
	return &ua.ResponseHeader{Timestamp: time.Unix(1_700_000_000, 0).UTC(), ServiceDiagnostics: &ua.DiagnosticInfo{}, StringTable: []string{}, AdditionalHeader: ua.NewExtensionObject(nil)}
}

// service builds the message of a template; size steers the encoded length.
func service(kind string, tmpl, size, fill int) any {
	p := pattern(size, fill)
	strs := func() []string {
		var out []string
		for off := 0; off < len(p); off += 37 {
			end := off + 37
			if end > len(p) {
				end = len(p)
			}
			s := make([]byte, end-off)
			for i := range s {
				s[i] = 'a' + p[off+i]%26
			}
			out = append(out, string(s))
		}
		return out
	}
	ints := func() []int32 {
		// Variant arrays are documented to hold at most ua.MaxVariantArrayLength (65535) elements
		out := make([]int32, 0, len(p)/4)
		for off := 0; off+4 <= len(p) && len(out) < 60000; off += 4 {
			out = append(out, int32(p[off])|int32(p[off+1])<<8|int32(p[off+2])<<16|int32(p[off+3])<<24)
		}
		return out
	}
	if kind == "server" {
		switch tmpl % 3 {
		case 0:
			return &ua.WriteRequest{RequestHeader: reqHeader(), NodesToWrite: []*ua.WriteValue{{
				NodeID: ua.NewNumericNodeID(2, uint32(fill)), AttributeID: ua.AttributeIDValue,
				Value: &ua.DataValue{EncodingMask: ua.DataValueValue, Value: ua.MustVariant(p)}}}}
		case 1:
			r := &ua.ReadRequest{RequestHeader: reqHeader(), MaxAge: float64(fill), TimestampsToReturn: ua.TimestampsToReturnBoth, NodesToRead: []*ua.ReadValueID{}}
			for _, s := range strs() {
				r.NodesToRead = append(r.NodesToRead, &ua.ReadValueID{NodeID: ua.NewStringNodeID(3, s), AttributeID: ua.AttributeIDValue, DataEncoding: &ua.QualifiedName{}})
			}
			return r
		default:
			return &ua.CallRequest{RequestHeader: reqHeader(), MethodsToCall: []*ua.CallMethodRequest{{
				ObjectID: ua.NewNumericNodeID(1, 7), MethodID: ua.NewStringNodeID(1, "m"),
				InputArguments: []*ua.Variant{ua.MustVariant(ints()), ua.MustVariant(int32(fill)), ua.MustVariant([]*ua.Variant{ua.MustVariant(p), ua.MustVariant("x")})}}}}
		}
	}
	switch tmpl % 3 {
	case 0:
		return &ua.ReadResponse{ResponseHeader: respHeader(), Results: []*ua.DataValue{{EncodingMask: ua.DataValueValue, Value: ua.MustVariant(p)}}, DiagnosticInfos: []*ua.DiagnosticInfo{}}
	case 1:
		r := &ua.ReadResponse{ResponseHeader: respHeader(), Results: []*ua.DataValue{}, DiagnosticInfos: []*ua.DiagnosticInfo{}}
		for _, s := range strs() {
			r.Results = append(r.Results, &ua.DataValue{EncodingMask: ua.DataValueValue | ua.DataValueStatusCode, Value: ua.MustVariant(s), Status: ua.StatusUncertainLastUsableValue})
		}
		return r
	default:
		return &ua.CallResponse{ResponseHeader: respHeader(), Results: []*ua.CallMethodResult{{StatusCode: ua.StatusOK, InputArgumentResults: []ua.StatusCode{},
			InputArgumentDiagnosticInfos: []*ua.DiagnosticInfo{},
			OutputArguments:              []*ua.Variant{ua.MustVariant(ints()), ua.MustVariant([]*ua.Variant{ua.MustVariant(p), ua.MustVariant("x")})}}}, DiagnosticInfos: []*ua.DiagnosticInfo{}}
	}
}

var (
	bodyMu    sync.Mutex
	bodyCache = map[[4]int][]byte{}
)

func body(kind string, m msgT) []byte {
	k := [4]int{int(kind[0]), m.Tmpl % 3, m.Size, m.Fill}
	bodyMu.Lock()
	defer bodyMu.Unlock()
	if b, ok := bodyCache[k]; ok {
		return b
	}
	b, err := refnone.ServiceBody(service(kind, m.Tmpl, m.Size, m.Fill))
	if err != nil {
		panic(err)
	}
	if len(bodyCache) > 512 {
		bodyCache = map[[4]int][]byte{}
	}
	bodyCache[k] = b
	return b
}

type chunkT struct {
	typ  byte
	data []byte
}

// chunksOf lays a message out as chunks; it validates the plain-data case.
func chunksOf(kind string, m msgT, max int) ([]chunkT, []byte, error) {
	b := body(kind, m)
	var pieces [][]byte
	prev := 0
	for _, c := range m.Cuts {
		if c <= prev || c >= len(b) {
			return nil, nil, fmt.Errorf("cut %d out of order / range (body %d bytes)", c, len(b))
		}
		pieces = append(pieces, b[prev:c])
		prev = c
	}
	pieces = append(pieces, b[prev:])
	for _, p := range pieces {
		if len(p) > max {
			return nil, nil, fmt.Errorf("piece of %d bytes exceeds the chunk body limit %d", len(p), max)
		}
	}
	var out []chunkT
	if m.Abort {
		if m.AbortAfter < 0 || m.AbortAfter > len(pieces) {
			return nil, nil, fmt.Errorf("abort_after %d out of range", m.AbortAfter)
		}
		for _, p := range pieces[:m.AbortAfter] {
			out = append(out, chunkT{'C', p})
		}
		out = append(out, chunkT{'A', refnone.AbortData(m.Status, m.Reason)})
		return out, b, nil
	}
	if m.EmptyFinal {
		pieces = append(pieces, nil)
	}
	for i, p := range pieces {
		typ := byte('C')
		if i == len(pieces)-1 {
			typ = 'F'
		}
		out = append(out, chunkT{typ, p})
	}
	return out, b, nil
}

// expectT is one entry of the reassembly model.
type expectT struct {
	msg    int // index into Msgs
	abort  bool
	status uint32
	body   []byte
}

type emitT struct {
	msg int
	chunkT
	seq uint32
}

type planT struct {
	emits   []emitT
	expect  []expectT // in order of final chunks
	opnSeq  uint32
	classes []string
	nontriv bool
}

// plan turns the case into the emission list (with sequence numbers) and the model.
func plan(c caseT) (*planT, error) {
	if c.Kind != "server" && c.Kind != "client" {
		return nil, fmt.Errorf("kind %q", c.Kind)
	}
	if c.Buf < 8192 || c.Buf > 65535 {
		return nil, fmt.Errorf("buf %d", c.Buf)
	}
	if c.Policy != "" && (refcodec.PolicyByURI(c.Policy) == nil || !refcodec.PolicyByURI(c.Policy).Secure()) {
		return nil, fmt.Errorf("policy %q", c.Policy)
	}
	if len(c.Msgs) < 1 || len(c.Msgs) > 16 {
		return nil, fmt.Errorf("%d messages", len(c.Msgs))
	}
	if c.WrapAfter < refnone.WrapMin || c.WrapTo > 1023 {
		return nil, fmt.Errorf("wrap parameters not conforming")
	}
	all := make([][]chunkT, len(c.Msgs))
	bodies := make([][]byte, len(c.Msgs))
	ids := map[uint32]bool{}
	for i, m := range c.Msgs {
		cs, b, err := chunksOf(c.Kind, m, maxChunkBody(c))
		if err != nil {
			return nil, fmt.Errorf("msg %d: %v", i, err)
		}
		if len(cs) > 64 || len(b) > 1<<20 {
			return nil, fmt.Errorf("msg %d too large", i)
		}
		if m.Abort && m.Status&0x80000000 == 0 {
			return nil, fmt.Errorf("msg %d: abort status is not Bad", i)
		}
		if c.Kind == "server" {
			if m.ReqID == 0 || ids[m.ReqID] {
				return nil, fmt.Errorf("msg %d: request id %d zero or repeated", i, m.ReqID)
			}
			ids[m.ReqID] = true
		}
		all[i], bodies[i] = cs, b
	}
	p := &planT{}
	seq := refnone.NewSeq(c.StartSeq, c.WrapAfter, c.WrapTo)
	p.opnSeq = seq.Next()
	next := make([]int, len(c.Msgs))
	open := map[int]bool{}
	interleaved, wrapped, wrapFirstOfMulti := false, false, false
	prevSeq := p.opnSeq
	for _, mi := range c.Order {
		if mi < 0 || mi >= len(c.Msgs) || next[mi] >= len(all[mi]) {
			return nil, fmt.Errorf("order names message %d too often", mi)
		}
		ch := all[mi][next[mi]]
		s := seq.Next()
		if s < prevSeq {
			wrapped = true
			if next[mi] == 0 && len(all[mi]) > 1 && !c.Msgs[mi].Abort {
				wrapFirstOfMulti = true
			}
		}
		prevSeq = s
		for o := range open {
			if o != mi {
				// a chunk is sent while another request id has a partial message pending
				interleaved = true
			}
		}
		next[mi]++
		p.emits = append(p.emits, emitT{mi, ch, s})
		switch ch.typ {
		case 'C':
			open[mi] = true
		case 'F':
			delete(open, mi)
			p.expect = append(p.expect, expectT{msg: mi, body: bodies[mi]})
		case 'A':
			delete(open, mi)
			p.expect = append(p.expect, expectT{msg: mi, abort: true, status: c.Msgs[mi].Status})
		}
	}
	for i := range next {
		if next[i] != len(all[i]) {
			return nil, fmt.Errorf("order leaves message %d incomplete", i)
		}
	}
	// classes
	pc := "None"
	if c.Policy != "" {
		pc = strings.TrimPrefix(c.Policy, "http://opcfoundation.org/UA/SecurityPolicy#") + "/Sign"
		if c.Encrypt {
			pc += "AndEncrypt"
		}
	}
	p.classes = append(p.classes, "kind:"+c.Kind, "kind:"+c.Kind+" "+pc, fmt.Sprintf("msgs:%d", len(c.Msgs)))
	multi, aborts, emptyFinal, oneByte := 0, 0, 0, 0
	for i, m := range c.Msgs {
		if len(all[i]) > 1 {
			multi++
		}
		if m.Abort {
			aborts++
			p.classes = append(p.classes, fmt.Sprintf("abort-after:%s", bucket(m.AbortAfter)))
		} else if m.EmptyFinal {
			emptyFinal++
		}
		for _, ch := range all[i] {
			if len(ch.data) == 1 {
				oneByte++
			}
		}
	}
	if multi > 0 {
		p.classes = append(p.classes, "has-multi-chunk")
	} else {
		p.classes = append(p.classes, "single-chunk-only")
	}
	if emptyFinal > 0 {
		p.classes = append(p.classes, "has-empty-final-chunk")
	}
	if oneByte > 0 {
		p.classes = append(p.classes, "has-1-byte-chunk")
	}
	if aborts > 0 {
		p.classes = append(p.classes, "has-abort")
	}
	if interleaved {
		p.classes = append(p.classes, "interleaved")
	}
	if wrapped {
		p.classes = append(p.classes, "wrap:crossed", fmt.Sprintf("wrap-to:%s", wrapClass(c.WrapTo)))
		if wrapFirstOfMulti {
			p.classes = append(p.classes, "wrap-lands-on-first-chunk-of-multi-chunk-msg")
		}
		if c.WrapAfter != 0xffffffff {
			p.classes = append(p.classes, "wrap-before-uint32-max")
		}
	} else {
		p.classes = append(p.classes, "wrap:none")
	}
	if p.opnSeq == 0 {
		p.classes = append(p.classes, "start-seq:0")
	}
	p.classes = append(p.classes, "chunks:"+bucket(len(p.emits)))
	p.nontriv = wrapped || interleaved || aborts > 0
	return p, nil
}

func bucket(n int) string {
	switch {
	case n == 0:
		return "0"
	case n == 1:
		return "1"
	case n <= 4:
		return "2-4"
	case n <= 16:
		return "5-16"
	case n <= 64:
		return "17-64"
	}
	return ">64"
}

func wrapClass(v uint32) string {
	switch v {
	case 0, 1, 1023:
		return fmt.Sprint(v)
	}
	return "other"
}

// ---------------------------------------------------------------------------
// Generator

func genCase(t *rapid.T) caseT {
	var c caseT
	c.Kind = rapid.SampledFrom([]string{"server", "server", "client"}).Draw(t, "kind")
	c.Buf = rapid.SampledFrom([]uint32{8192, 8192, 8193, 16384, 65535}).Draw(t, "buf")
	switch rapid.IntRange(0, 9).Draw(t, "sec") {
	case 0, 1, 2, 3, 4:
	case 5, 6:
		c.Policy, c.Encrypt = ua.SecurityPolicyURIBasic256Sha256, true
	case 7, 8:
		c.Policy, c.Encrypt = ua.SecurityPolicyURIBasic256Sha256, false
	default:
		c.Policy = rapid.SampledFrom([]string{ua.SecurityPolicyURIBasic128Rsa15, ua.SecurityPolicyURIBasic256, ua.SecurityPolicyURIAes128Sha256RsaOaep, ua.SecurityPolicyURIAes256Sha256RsaPss}).Draw(t, "policy")
		c.Encrypt = rapid.Bool().Draw(t, "encrypt")
	}
	max := maxChunkBody(c)
	n := rapid.IntRange(1, 8).Draw(t, "nmsgs")
	// abort-heavy histories against a receiver with a small chunk limit: many
	// partial messages are aborted one after the other, so that chunks which
	// were buffered and then cancelled add up to several times the limit; a
	// conforming stream never has more than MaxChunks chunks in flight
	abortHeavy := c.Kind == "server" && rapid.IntRange(0, 4).Draw(t, "abortHeavy") == 0
	if abortHeavy {
		c.MaxChunks = uint32(rapid.IntRange(6, 16).Draw(t, "maxChunks"))
		n = rapid.IntRange(6, 16).Draw(t, "nmsgsHeavy")
	}
	usedIDs := map[uint32]bool{}
	nchunks := make([]int, n)
	total := 0
	for i := 0; i < n; i++ {
		var m msgT
		m.Tmpl = rapid.IntRange(0, 2).Draw(t, "tmpl")
		m.Fill = rapid.IntRange(0, 255).Draw(t, "fill")
		switch rapid.IntRange(0, 9).Draw(t, "sizeclass") {
		case 0, 1, 2:
			m.Size = rapid.IntRange(8, 64).Draw(t, "size")
		case 3, 4, 5, 6:
			m.Size = rapid.IntRange(65, 3000).Draw(t, "size")
		case 7, 8:
			m.Size = rapid.IntRange(3001, 40000).Draw(t, "size")
		default:
			m.Size = rapid.IntRange(40001, ev.Pick(120000, 400000)).Draw(t, "size")
		}
		if c.Kind == "server" {
			for {
				switch rapid.IntRange(0, 3).Draw(t, "idclass") {
				case 0:
					m.ReqID = uint32(rapid.IntRange(1, 12).Draw(t, "id"))
				case 1:
					m.ReqID = 0xffffffff - uint32(rapid.IntRange(0, 3).Draw(t, "id"))
				default:
					m.ReqID = rapid.Uint32Range(1, 0xffffffff).Draw(t, "id")
				}
				if !usedIDs[m.ReqID] {
					break
				}
			}
			usedIDs[m.ReqID] = true
		}
		b := body(c.Kind, m)
		for len(b) > 56*max || len(b) > 1<<20 || (abortHeavy && len(b) > (int(c.MaxChunks)-2)*max) {
			// keep a message within 64 chunks (8 interleaved messages stay within
			// MaxChunkCount 512 in total) and 1 MiB
			m.Size = m.Size / 2
			b = body(c.Kind, m)
		}
		// split points: the mandatory ones (a piece may not exceed max) plus drawn ones
		style := rapid.IntRange(0, 3).Draw(t, "splitstyle")
		var cuts []int
		switch {
		case style == 0: // like gopcua: maximal chunks
			for off := max; off < len(b); off += max {
				cuts = append(cuts, off)
			}
		default:
			extra := rapid.IntRange(0, 6).Draw(t, "ncuts")
			if style == 3 {
				extra = rapid.IntRange(1, 12).Draw(t, "ncuts")
			}
			set := map[int]bool{}
			for k := 0; k < extra && len(b) > 1; k++ {
				var at int
				switch rapid.IntRange(0, 4).Draw(t, "cutclass") {
				case 0:
					at = rapid.IntRange(1, minInt(8, len(b)-1)).Draw(t, "cut") // tiny first chunk(s)
				case 1:
					at = len(b) - rapid.IntRange(1, minInt(8, len(b)-1)).Draw(t, "cut") // tiny last chunk
				default:
					at = rapid.IntRange(1, len(b)-1).Draw(t, "cut")
				}
				set[at] = true
			}
			for at := range set {
				cuts = append(cuts, at)
			}
			sort.Ints(cuts)
			// enforce the size limit by adding cuts where a piece is too long
			var fixed []int
			prev := 0
			for _, at := range append(cuts, len(b)) {
				for at-prev > max {
					prev += max
					fixed = append(fixed, prev)
				}
				if at < len(b) {
					fixed = append(fixed, at)
				}
				prev = at
			}
			cuts = fixed
		}
		if len(cuts) > 60 {
			// keep the chunk count bounded: fall back to maximal chunks
			cuts = nil
			for off := max; off < len(b); off += max {
				cuts = append(cuts, off)
			}
		}
		if abortHeavy && len(b) > int(c.MaxChunks) {
			// 2 .. MaxChunks-2 pieces, none longer than a chunk
			j := rapid.IntRange(2, int(c.MaxChunks)-2).Draw(t, "pieces")
			if len(b) > j*max {
				j = (len(b) + max - 1) / max
			}
			cuts = nil
			for k := 1; k < j; k++ {
				cuts = append(cuts, k*len(b)/j)
			}
		}
		m.Cuts = cuts
		npieces := len(cuts) + 1
		abortDraw := rapid.IntRange(0, 5).Draw(t, "abort?")
		if abortDraw == 0 || (abortHeavy && abortDraw < 4) {
			m.Abort = true
			m.AbortAfter = rapid.IntRange(0, npieces).Draw(t, "abortAfter")
			m.Status = uint32(rapid.SampledFrom([]ua.StatusCode{ua.StatusBadResponseTooLarge, ua.StatusBadRequestTooLarge, ua.StatusBadTCPMessageTooLarge, ua.StatusBadEncodingLimitsExceeded, ua.StatusBadInternalError, 0x80ab0000}).Draw(t, "status"))
			m.Reason = rapid.SampledFrom([]string{"", "too large", "ärger"}).Draw(t, "reason")
			nchunks[i] = m.AbortAfter + 1
		} else {
			m.EmptyFinal = rapid.IntRange(0, 3).Draw(t, "emptyFinal") == 0
			nchunks[i] = npieces
			if m.EmptyFinal {
				nchunks[i]++
			}
		}
		total += nchunks[i]
		c.Msgs = append(c.Msgs, m)
	}
	// emission order: messages start in index order; up to `window` messages are in flight
	window := rapid.SampledFrom([]int{1, 1, 2, 3, 4, 8}).Draw(t, "window")
	if abortHeavy {
		window = 1
	}
	left := append([]int(nil), nchunks...)
	for {
		var cand []int
		for i := range left {
			if left[i] > 0 {
				cand = append(cand, i)
				if len(cand) == window {
					break
				}
			}
		}
		if len(cand) == 0 {
			break
		}
		pick := cand[0]
		if len(cand) > 1 {
			pick = cand[rapid.IntRange(0, len(cand)-1).Draw(t, "next")]
		}
		c.Order = append(c.Order, pick)
		left[pick]--
	}
	// sequence numbers
	c.WrapAfter = 0xffffffff
	if rapid.IntRange(0, 3).Draw(t, "wrapEarly") == 0 {
		c.WrapAfter = rapid.Uint32Range(refnone.WrapMin, 0xffffffff).Draw(t, "wrapAfter")
	}
	c.WrapTo = rapid.SampledFrom([]uint32{0, 0, 1, 1023, 5, 512}).Draw(t, "wrapTo")
	switch rapid.IntRange(0, 9).Draw(t, "seqclass") {
	case 0:
		c.StartSeq = rapid.Uint32Range(0, 3).Draw(t, "start")
	case 1, 2:
		c.StartSeq = rapid.Uint32().Draw(t, "start")
		if c.StartSeq > c.WrapAfter {
			c.StartSeq = c.WrapAfter
		}
	default:
		// the wrap happens inside the stream: the chunk with index k (0 = OPN) is the last before the wrap
		k := rapid.IntRange(0, total-1).Draw(t, "wrapAt")
		c.StartSeq = c.WrapAfter - uint32(k)
	}
	if c.Kind == "client" {
		c.ReqSeed = rapid.SampledFrom([]uint32{0, 0, 1000, 0xfffffffd, 0x7fffffff}).Draw(t, "reqSeed")
	}
	return c
}

func minInt(a, b int) int {
	if a < b {
		return a
	}
	return b
}

// ---------------------------------------------------------------------------
// Execution

type resultT struct {
	reqID uint32
	err   error
	body  []byte // re-encoded type id + service
}

func reencode(v any) ([]byte, error) {
	if v == nil {
		return nil, fmt.Errorf("no service value")
	}
	return refnone.ServiceBody(v)
}

const waitBound = 20 * time.Second

// errTimeout marks a verdict that rests on a wait running out.
type errTimeout struct{ what string }

func (e errTimeout) Error() string { return e.what }

// runServer feeds the stream to a gopcua server channel; returns "" if the model holds.
func runServer(c caseT, p *planT) (string, error) {
	ctx, cancel := context.WithCancel(context.Background())
	defer cancel()
	ack := &uacp.Acknowledge{ReceiveBufSize: c.Buf, SendBufSize: c.Buf, MaxChunkCount: 512, MaxMessageSize: 4 << 20}
	if c.MaxChunks != 0 {
		ack.MaxChunkCount = c.MaxChunks
	}
	ln, err := uacp.Listen(ctx, "opc.tcp://127.0.0.1:0", ack)
	if err != nil {
		return "", fmt.Errorf("listen: %w", err)
	}
	defer ln.Close()
	type acc struct {
		c   *uacp.Conn
		err error
	}
	accCh := make(chan acc, 1)
	go func() {
		conn, err := ln.Accept(ctx)
		accCh <- acc{conn, err}
	}()
	endpoint := "opc.tcp://" + ln.Addr().String()
	// the reference client: HEL/ACK, then the OPN exchange (needs the server's Receive loop)
	type dialed struct {
		r   *refEnd
		err error
	}
	refCh := make(chan dialed, 1)
	go func() {
		r, err := dialRef(c, ln.Addr().String(), endpoint, p.opnSeq)
		refCh <- dialed{r, err}
	}()
	var a acc
	select {
	case a = <-accCh:
	case d := <-refCh:
		return "", fmt.Errorf("reference client: %v", d.err)
	case <-time.After(waitBound):
		return "", errTimeout{"accept did not return"}
	}
	if a.err != nil {
		return "", fmt.Errorf("accept: %w", a.err)
	}
	defer a.c.Close()
	errch := make(chan error, 64)
	sc, err := uasc.NewServerSecureChannel(endpoint, a.c, serverChannelConfig(c), errch, 4711, 17, 815)
	if err != nil {
		return "", err
	}
	results := make(chan *uasc.MessageBody, 4)
	go func() {
		for {
			m := sc.Receive(ctx)
			results <- m
			if m.Err == io.EOF || ctx.Err() != nil {
				return
			}
		}
	}()
	var ref *refEnd
	select {
	case d := <-refCh:
		if d.err != nil {
			return "", fmt.Errorf("reference OPN: %w", d.err)
		}
		ref = d.r
	case <-time.After(waitBound):
		return "", errTimeout{"the reference client did not finish the OPN exchange"}
	}
	rc := ref.conn
	defer rc.Close()
	if ch, tk := ref.ids(); ch != 4711 || tk != 815 {
		return "", fmt.Errorf("server issued channel %d token %d", ch, tk)
	}
	select {
	case m := <-results:
		if m.Err != nil {
			return "", fmt.Errorf("server Receive for the OPN: %v", m.Err)
		}
	case <-time.After(waitBound):
		return "", errTimeout{"server did not finish the OPN"}
	}
	// emit the stream
	var wire bytes.Buffer
	for _, e := range p.emits {
		f, err := ref.chunk(e.typ, c.Msgs[e.msg].ReqID, e.seq, e.data)
		if err != nil {
			return "", fmt.Errorf("reference chunk: %w", err)
		}
		wire.Write(f)
	}
	werr := make(chan error, 1)
	go func() {
		_, err := rc.Write(wire.Bytes())
		if err == nil {
			err = rc.(interface{ CloseWrite() error }).CloseWrite()
		}
		werr <- err
	}()
	var got []*uasc.MessageBody
	deadline := time.After(waitBound)
loop:
	for {
		select {
		case m := <-results:
			if m.Err == io.EOF {
				break loop
			}
			got = append(got, m)
			if len(got) > len(p.expect)+4 {
				break loop
			}
		case <-deadline:
			return "", errTimeout{fmt.Sprintf("Receive delivered %d of %d results and no EOF within %v after the stream was written", len(got), len(p.expect), waitBound)}
		}
	}
	if err := <-werr; err != nil {
		return "", fmt.Errorf("reference write: %w", err)
	}
	// judge
	for i, e := range p.expect {
		if i >= len(got) {
			return fmt.Sprintf("result #%d missing: the model expects %s, Receive returned only %d results before EOF", i, describe(c, e), len(got)), nil
		}
		if msg := judge(c, e, c.Msgs[e.msg].ReqID, got[i].RequestID, got[i].Err, func() any { return got[i].Request() }); msg != "" {
			return fmt.Sprintf("result #%d: %s", i, msg), nil
		}
		if !e.abort && got[i].SecureChannelID != 4711 {
			return fmt.Sprintf("result #%d: SecureChannelID %d, want 4711", i, got[i].SecureChannelID), nil
		}
	}
	if len(got) > len(p.expect) {
		x := got[len(p.expect)]
		return fmt.Sprintf("extra result after the %d the model expects: request id %d err=%v", len(p.expect), x.RequestID, x.Err), nil
	}
	return "", nil
}

func describe(c caseT, e expectT) string {
	if e.abort {
		return fmt.Sprintf("abort of message %d with status 0x%08x", e.msg, e.status)
	}
	return fmt.Sprintf("message %d (%d body bytes)", e.msg, len(e.body))
}

// judge compares one delivered result with the model entry.
func judge(c caseT, e expectT, wantID, gotID uint32, err error, value func() any) string {
	if gotID != wantID {
		return fmt.Sprintf("request id %d, the model expects %s with request id %d", gotID, describe(c, e), wantID)
	}
	if e.abort {
		if err == nil {
			return fmt.Sprintf("request id %d was aborted with 0x%08x but a message was delivered", wantID, e.status)
		}
		sc, ok := err.(ua.StatusCode)
		if !ok || uint32(sc) != e.status {
			return fmt.Sprintf("request id %d was aborted with 0x%08x but the error is %v", wantID, e.status, err)
		}
		return ""
	}
	if err != nil {
		return fmt.Sprintf("request id %d: %s was not delivered: %v", wantID, describe(c, e), err)
	}
	b, rerr := reencode(value())
	if rerr != nil {
		return fmt.Sprintf("request id %d: delivered value cannot be re-encoded: %v", wantID, rerr)
	}
	if !sameMessage(b, e.body) {
		return fmt.Sprintf("request id %d: delivered message differs from the one sent (%d vs %d bytes, first difference at %d)", wantID, len(b), len(e.body), firstDiff(b, e.body))
	}
	return ""
}

// sameMessage: byte-identical after re-encoding, or (codec normalisations such
// as nil vs empty, which are C01's subject) equal as decoded values.
func sameMessage(got, want []byte) bool {
	if bytes.Equal(got, want) {
		return true
	}
	_, a, err1 := ua.DecodeService(got)
	_, b, err2 := ua.DecodeService(want)
	return err1 == nil && err2 == nil && eq.Equal(a, b)
}

func firstDiff(a, b []byte) int {
	for i := 0; i < len(a) && i < len(b); i++ {
		if a[i] != b[i] {
			return i
		}
	}
	return minInt(len(a), len(b))
}

// runClient lets a gopcua client channel wait for the responses the reference
// server emits as the generated stream.
func runClient(c caseT, p *planT) (string, error) {
	ctx, cancel := context.WithCancel(context.Background())
	defer cancel()
	ln, err := net.Listen("tcp", "127.0.0.1:0")
	if err != nil {
		return "", err
	}
	defer ln.Close()
	endpoint := "opc.tcp://" + ln.Addr().String()
	n := len(c.Msgs)
	type srvEvt struct {
		idx   int
		reqID uint32
		err   error
	}
	seen := make(chan srvEvt, n+1)
	emit := make(chan struct{})
	closeNow := make(chan struct{})
	srvDone := make(chan error, 1)
	ids := make([]uint32, n)
	go func() {
		srvDone <- func() error {
			ref, err := acceptRef(c, ln, p.opnSeq)
			if err != nil {
				return err
			}
			rc := ref.conn
			defer rc.Close()
			for k := 0; k < n; k++ {
				reqID, svc, err := ref.readRequest()
				if err != nil {
					return fmt.Errorf("reading request %d: %w", k, err)
				}
				rr, ok := svc.(*ua.ReadRequest)
				if !ok {
					return fmt.Errorf("unexpected request %T", svc)
				}
				seen <- srvEvt{idx: int(rr.MaxAge), reqID: reqID}
			}
			<-emit
			var wire bytes.Buffer
			for _, e := range p.emits {
				f, err := ref.chunk(e.typ, ids[e.msg], e.seq, e.data)
				if err != nil {
					return fmt.Errorf("reference chunk: %w", err)
				}
				wire.Write(f)
			}
			rc.SetWriteDeadline(time.Now().Add(waitBound))
			if _, err := rc.Write(wire.Bytes()); err != nil {
				return err
			}
			<-closeNow
			return nil
		}()
	}()

	d := &uacp.Dialer{ClientACK: &uacp.Acknowledge{ReceiveBufSize: 65535, SendBufSize: 65535}}
	dctx, dcancel := context.WithTimeout(ctx, 10*time.Second)
	defer dcancel()
	conn, err := d.Dial(dctx, endpoint)
	if err != nil {
		return "", fmt.Errorf("dial: %w", err)
	}
	defer conn.Close()
	errch := make(chan error, 64)
	sc, err := uasc.NewSecureChannel(endpoint, conn, clientChannelConfig(c), errch)
	if err != nil {
		return "", err
	}
	octx, ocancel := context.WithTimeout(ctx, waitBound)
	defer ocancel()
	if err := sc.Open(octx); err != nil {
		select {
		case e := <-srvDone:
			return "", fmt.Errorf("open: %v (reference server: %v)", err, e)
		default:
		}
		return "", fmt.Errorf("open: %w", err)
	}
	type cliRes struct {
		idx   int
		err   error
		body  []byte
		calls int
	}
	resCh := make(chan cliRes, n)
	for i := 0; i < n; i++ {
		i := i
		go func() {
			r := cliRes{idx: i}
			req := &ua.ReadRequest{MaxAge: float64(i), TimestampsToReturn: ua.TimestampsToReturnNeither, NodesToRead: []*ua.ReadValueID{}}
			r.err = sc.SendRequest(ctx, req, nil, func(v ua.Response) error {
				r.calls++
				b, err := reencode(v)
				if err != nil {
					return fmt.Errorf("re-encode: %v", err)
				}
				r.body = b
				return nil
			})
			resCh <- r
		}()
		// wait until the reference server has this request: request ids are then
		// assigned in message order
		select {
		case e := <-seen:
			if e.idx != i {
				return "", fmt.Errorf("reference server saw request %d, expected %d", e.idx, i)
			}
			ids[i] = e.reqID
		case e := <-srvDone:
			return "", fmt.Errorf("reference server: %v", e)
		case <-time.After(waitBound):
			return "", errTimeout{"request did not reach the reference server"}
		}
	}
	idset := map[uint32]bool{}
	for _, id := range ids {
		if idset[id] {
			return "", fmt.Errorf("gopcua assigned request id %d twice", id)
		}
		idset[id] = true
	}
	close(emit)
	res := make([]*cliRes, n)
	deadline := time.After(waitBound + 5*time.Second)
	for k := 0; k < n; k++ {
		select {
		case r := <-resCh:
			rr := r
			res[rr.idx] = &rr
		case e := <-srvDone:
			if e != nil {
				return "", fmt.Errorf("reference server: %v", e)
			}
		case <-deadline:
			return "", errTimeout{"SendRequest did not return"}
		}
	}
	close(closeNow)
	// judge: every request id gets what the model says
	timeouts := 0
	for _, e := range p.expect {
		r := res[e.msg]
		if r.err == ua.StatusBadTimeout {
			timeouts++
			continue
		}
		if r.calls > 1 {
			return fmt.Sprintf("handler of request id %d called %d times", ids[e.msg], r.calls), nil
		}
		if e.abort && r.calls != 0 {
			return fmt.Sprintf("request id %d was aborted with 0x%08x but its handler received a response", ids[e.msg], e.status), nil
		}
		v := func() any { return nil }
		if msg := judgeBytes(c, e, ids[e.msg], r.err, r.body, v); msg != "" {
			return msg, nil
		}
	}
	if timeouts > 0 {
		return "", errTimeout{fmt.Sprintf("%d of %d requests ended in StatusBadTimeout after %v although their responses were written", timeouts, n, waitBound)}
	}
	// nothing extra: the dispatcher reports only the abort statuses (and the final EOF)
	want := map[uint32]int{}
	for _, e := range p.expect {
		if e.abort {
			want[e.status]++
		}
	}
	// the dispatcher reports the EOF after everything else, so the EOF ends the drain
	drain := time.After(5 * time.Second)
	for {
		select {
		case err := <-errch:
			if err == io.EOF {
				return "", nil
			}
			if s, ok := err.(ua.StatusCode); ok && want[uint32(s)] > 0 {
				want[uint32(s)]--
				continue
			}
			return fmt.Sprintf("the client channel reported an error the stream does not explain: %v", err), nil
		case <-drain:
			return "", nil
		}
	}
}

func judgeBytes(c caseT, e expectT, id uint32, err error, body []byte, _ func() any) string {
	if e.abort {
		if err == nil {
			return fmt.Sprintf("request id %d was aborted with 0x%08x but SendRequest returned no error", id, e.status)
		}
		sc, ok := err.(ua.StatusCode)
		if !ok || uint32(sc) != e.status {
			return fmt.Sprintf("request id %d was aborted with 0x%08x but SendRequest returned %v", id, e.status, err)
		}
		return ""
	}
	if err != nil {
		return fmt.Sprintf("request id %d: %s was not delivered: %v", id, describe(c, e), err)
	}
	if !sameMessage(body, e.body) {
		return fmt.Sprintf("request id %d: delivered response differs from the one sent (%d vs %d bytes, first difference at %d)", id, len(body), len(e.body), firstDiff(body, e.body))
	}
	return ""
}

// check runs a case; timing-only verdicts are confirmed three times.
func check(c caseT) (msg string, p *planT, err error) {
	p, err = plan(c)
	if err != nil {
		return "", nil, fmt.Errorf("malformed case: %w", err)
	}
	for attempt := 0; ; attempt++ {
		var m string
		var e error
		if c.Kind == "server" {
			m, e = runServer(c, p)
		} else {
			m, e = runClient(c, p)
		}
		if to, ok := e.(errTimeout); ok {
			if attempt < 2 {
				continue
			}
			return "blocked (confirmed 3 times): " + to.what, p, nil
		}
		return m, p, e
	}
}

func sampleOf(c caseT) any {
	type ms struct {
		ReqID  uint32 `json:"req_id,omitempty"`
		Body   int    `json:"body_bytes"`
		Chunks int    `json:"chunks"`
		Abort  bool   `json:"abort,omitempty"`
		Empty  bool   `json:"empty_final,omitempty"`
	}
	var out struct {
		Kind      string `json:"kind"`
		Buf       uint32 `json:"buf"`
		StartSeq  uint32 `json:"start_seq"`
		WrapAfter uint32 `json:"wrap_after"`
		WrapTo    uint32 `json:"wrap_to"`
		Msgs      []ms   `json:"msgs"`
		Order     []int  `json:"order"`
	}
	out.Kind, out.Buf, out.StartSeq, out.WrapAfter, out.WrapTo, out.Order = c.Kind, c.Buf, c.StartSeq, c.WrapAfter, c.WrapTo, c.Order
	for _, m := range c.Msgs {
		cs, b, _ := chunksOf(c.Kind, m, maxChunkBody(c))
		out.Msgs = append(out.Msgs, ms{m.ReqID, len(b), len(cs), m.Abort, m.EmptyFinal && !m.Abort})
	}
	return out
}

func TestReassembly(t *testing.T) {
	rec.Assume("reference senders: pkg/refnone (hand-written, policy None) and pkg/refcodec (independent Part 6 codec on the Go standard library, five RSA policies, Sign and SignAndEncrypt, 2048-bit fixtures); service bodies encoded with gopcua's ua.Encode and compared after re-encoding the delivered value (relies on C01 for the three request / three response templates used)")
	rec.Assume("a conforming stream: sequence numbers +1 per chunk over all request ids, wrap after a number > UInt32.Max-1024 onto a number < 1024; chunks <= negotiated buffer size; <= 64 chunks and <= 1 MiB per message (below MaxChunkCount 512 / MaxMessageSize); request ids distinct; no empty intermediate chunks")
	rapid.Check(t, func(t *rapid.T) {
		c := genCase(t)
		msg, p, err := check(c)
		if err != nil {
			t.Fatalf("infrastructure: %v", err)
		}
		b, _ := json.Marshal(c)
		rec.Case(p.nontriv, ev.Hash(b), p.classes...)
		if c.MaxChunks != 0 {
			aborted := 0
			for _, m := range c.Msgs {
				if m.Abort {
					aborted += m.AbortAfter
				}
			}
			rec.Class("abort-heavy(small MaxChunkCount)")
			if uint32(aborted) > c.MaxChunks {
				rec.Class("abort-heavy:aborted chunks exceed MaxChunkCount in total")
			}
		}
		if p.nontriv && rec.WantSample() {
			rec.Sample(sampleOf(c))
		}
		if msg != "" {
			rec.Fail(t, "TestReassembly", c, "%s", msg)
		}
	})
}

// TestReplay re-runs a saved case without rapid.
func TestReplay(t *testing.T) {
	rp, err := ev.LoadReplay()
	if err != nil {
		t.Fatal(err)
	}
	if rp == nil {
		t.Skip("no VERIF_REPLAY")
	}
	switch rp.Test {
	case "TestSteered":
		var c steerT
		if err := json.Unmarshal(rp.Case, &c); err != nil {
			t.Fatal(err)
		}
		fmt.Println("REPLAYED structured")
		msg, _, err := checkSteered(c)
		if err != nil {
			t.Fatalf("infrastructure: %v", err)
		}
		if msg != "" {
			t.Fatalf("property C12 violated: %s", msg)
		}
	default:
		var c caseT
		if err := json.Unmarshal(rp.Case, &c); err != nil {
			t.Fatal(err)
		}
		fmt.Println("REPLAYED structured")
		msg, _, err := check(c)
		if err != nil {
			t.Fatalf("infrastructure: %v", err)
		}
		if msg != "" {
			t.Fatalf("property C12 violated: %s", msg)
		}
	}
}
