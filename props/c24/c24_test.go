// Package c24 decides property C24: endpoint selection returns a best matching
// endpoint. Generator: endpoint lists with frequent level ties and duplicates;
// oracle: a reference written from the property statement.
package c24

import (
	"encoding/json"
	"fmt"
	"testing"

	"github.com/gopcua/opcua"
	"github.com/gopcua/opcua/ua"
	"pgregory.net/rapid"

	"verif/pkg/ev"
)

func TestMain(m *testing.M) { ev.Main(m) }

const prefix = "http://opcfoundation.org/UA/SecurityPolicy#"

// independent table: short name -> URI fragment
var shortNames = map[string]string{
	"None":                "None",
	"Basic128Rsa15":       "Basic128Rsa15",
	"Basic256":            "Basic256",
	"Basic256Sha256":      "Basic256Sha256",
	"Aes128Sha256RsaOaep": "Aes128_Sha256_RsaOaep",
	"Aes256Sha256RsaPss":  "Aes256_Sha256_RsaPss",
}

var fragments = []string{"None", "Basic128Rsa15", "Basic256", "Basic256Sha256", "Aes128_Sha256_RsaOaep", "Aes256_Sha256_RsaPss", "Vendor_Unknown"}

type endpoint struct {
	Policy string `json:"policy"` // full URI
	Mode   int    `json:"mode"`
	Level  int    `json:"level"`
}

type caseT struct {
	Endpoints []endpoint `json:"endpoints"`
	Policy    string     `json:"query_policy"`
	Mode      int        `json:"query_mode"`
}

func refNorm(p string) string {
	if p == "" {
		return ""
	}
	if f, ok := shortNames[p]; ok {
		return prefix + f
	}
	if len(p) >= len(prefix) && p[:len(prefix)] == prefix {
		return p
	}
	return prefix + p
}

func genCase(t *rapid.T) caseT {
	var c caseT
	n := rapid.IntRange(0, 14).Draw(t, "n")
	wide := rapid.Bool().Draw(t, "wideLevels")
	for i := 0; i < n; i++ {
		var e endpoint
		e.Policy = prefix + rapid.SampledFrom(fragments).Draw(t, "policy")
		e.Mode = rapid.IntRange(0, 3).Draw(t, "mode")
		if wide {
			e.Level = rapid.IntRange(0, 255).Draw(t, "level")
		} else {
			e.Level = rapid.IntRange(0, 5).Draw(t, "level")
		}
		c.Endpoints = append(c.Endpoints, e)
	}
	qkind := rapid.IntRange(0, 4).Draw(t, "qkind")
	if n > 0 && rapid.IntRange(0, 9).Draw(t, "fromList") < 6 {
		// query the policy of an endpoint that is in the list, in one of its spellings
		frag := c.Endpoints[rapid.IntRange(0, n-1).Draw(t, "qfrom")].Policy[len(prefix):]
		switch qkind {
		case 0:
			c.Policy = ""
		case 1, 4:
			c.Policy = frag
			for short, f := range shortNames {
				if f == frag {
					c.Policy = short
				}
			}
		case 2:
			c.Policy = prefix + frag
		case 3:
			c.Policy = frag
		}
	} else {
		switch qkind {
		case 0:
			c.Policy = ""
		case 1: // short name
			c.Policy = rapid.SampledFrom([]string{"None", "Basic128Rsa15", "Basic256", "Basic256Sha256", "Aes128Sha256RsaOaep", "Aes256Sha256RsaPss"}).Draw(t, "qshort")
		case 2: // URI
			c.Policy = prefix + rapid.SampledFrom(fragments).Draw(t, "quri")
		case 3: // fragment form of the URI (also accepted as a short name)
			c.Policy = rapid.SampledFrom(fragments).Draw(t, "qfrag")
		case 4:
			c.Policy = rapid.SampledFrom([]string{"Nope", "basic256", prefix + "Nope"}).Draw(t, "qunknown")
		}
	}
	c.Mode = rapid.IntRange(0, 3).Draw(t, "qmode")
	if n > 0 && rapid.Bool().Draw(t, "modeFromList") {
		c.Mode = c.Endpoints[rapid.IntRange(0, n-1).Draw(t, "qmfrom")].Mode
		if rapid.IntRange(0, 3).Draw(t, "dontcare") == 0 {
			c.Mode = 0
		}
	}
	return c
}

// check runs the real SelectEndpoint against the reference; returns "" if the
// property holds on this case.
func check(c caseT) (msg string, nontrivial bool, classes []string) {
	eps := make([]*ua.EndpointDescription, len(c.Endpoints))
	idx := map[*ua.EndpointDescription]int{}
	for i, e := range c.Endpoints {
		eps[i] = &ua.EndpointDescription{SecurityPolicyURI: e.Policy, SecurityMode: ua.MessageSecurityMode(e.Mode), SecurityLevel: uint8(e.Level),
			EndpointURL: fmt.Sprintf("opc.tcp://h:%d", i)}
		idx[eps[i]] = i
	}
	want := refNorm(c.Policy)
	match := func(e endpoint) bool {
		return (c.Policy == "" || e.Policy == want) && (c.Mode == int(ua.MessageSecurityModeInvalid) || e.Mode == c.Mode)
	}
	best, nmatch := -1, 0
	for _, e := range c.Endpoints {
		if match(e) {
			nmatch++
			if e.Level > best {
				best = e.Level
			}
		}
	}
	passed := append([]*ua.EndpointDescription(nil), eps...)
	var got *ua.EndpointDescription
	var err error
	func() {
		defer func() {
			if r := recover(); r != nil {
				msg = fmt.Sprintf("panic: %v", r)
			}
		}()
		got, err = opcua.SelectEndpoint(passed, c.Policy, ua.MessageSecurityMode(c.Mode))
	}()
	if msg != "" {
		return
	}
	// caller's slice keeps the same multiset of elements
	seen := map[*ua.EndpointDescription]int{}
	for _, p := range passed {
		seen[p]++
	}
	for _, p := range eps {
		if seen[p] != 1 {
			return "the caller's endpoint slice lost or duplicated an element", true, nil
		}
	}
	ties := 0
	for _, e := range c.Endpoints {
		if match(e) && e.Level == best {
			ties++
		}
	}
	nontrivial = nmatch >= 2 && nmatch < len(c.Endpoints)
	switch {
	case nmatch == 0:
		classes = append(classes, "no-match")
	case ties > 1:
		classes = append(classes, "best-level-tie")
	default:
		classes = append(classes, "unique-best")
	}
	if c.Policy == "" && c.Mode == 0 {
		classes = append(classes, "dont-care")
	}
	if nmatch == 0 {
		if err == nil {
			return fmt.Sprintf("no endpoint matches but got endpoint #%d and no error", idx[got]), nontrivial, classes
		}
		return "", nontrivial, classes
	}
	if err != nil {
		return fmt.Sprintf("%d endpoints match but got error %v", nmatch, err), nontrivial, classes
	}
	i, ok := idx[got]
	if !ok {
		return "result is not one of the endpoints passed in", nontrivial, classes
	}
	// the fields of the returned endpoint were not altered
	e := c.Endpoints[i]
	if got.SecurityPolicyURI != e.Policy || int(got.SecurityMode) != e.Mode || int(got.SecurityLevel) != e.Level {
		return "returned endpoint was modified", nontrivial, classes
	}
	if !match(e) {
		return fmt.Sprintf("returned endpoint #%d %+v does not match the query", i, e), nontrivial, classes
	}
	if e.Level != best {
		return fmt.Sprintf("returned endpoint #%d has level %d, best matching level is %d", i, e.Level, best), nontrivial, classes
	}
	return "", nontrivial, classes
}

var rec = ev.For("C24", "rapid-generated endpoint lists (0-14 endpoints, 7 policy URIs incl. an unknown one, 4 modes, levels 0-5 or 0-255) x queries (empty/short name/URI/fragment/unknown policy x 4 modes); non-trivial = at least 2 but not all endpoints match the query; distinct by hash of (list, query)")

func TestSelectEndpoint(t *testing.T) {
	rec.Assume("reference oracle written from the property statement; policy short-name table written independently of ua.SecurityPolicyURIs")
	rapid.Check(t, func(t *rapid.T) {
		c := genCase(t)
		msg, nt, classes := check(c)
		b, _ := json.Marshal(c)
		rec.Case(nt, ev.Hash(b), classes...)
		if nt && rec.WantSample() {
			rec.Sample(c)
		}
		if msg != "" {
			rec.Fail(t, "TestSelectEndpoint", c, "%s", msg)
		}
	})
}

// TestReplay re-runs a saved case without rapid.
func TestReplay(t *testing.T) {
	rp, err := ev.LoadReplay()
	if err != nil {
		t.Fatal(err)
	}
	if rp == nil {
		t.Skip("no VERIF_REPLAY")
	}
	var c caseT
	if err := json.Unmarshal(rp.Case, &c); err != nil {
		t.Fatal(err)
	}
	fmt.Println("REPLAYED structured")
	if msg, _, _ := check(c); msg != "" {
		t.Fatalf("property C24 violated: %s", msg)
	}
}
