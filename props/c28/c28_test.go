// Package c28 decides property C28: monitor notifications name the right node
// and converge to the latest value.
//
// Generator: a rapid-drawn history against an in-process gopcua server with 2-6
// fresh variables: one client owns a monitor.NodeMonitor subscription (callback
// flavour via Subscribe or channel flavour via ChanSubscribe) and performs
// AddNodes / RemoveNodes; 2-3 other clients write in bursts (optionally still
// running while the next Add/Remove steps execute). Every written value is
// nodeIndex*1_000_000 + k (k unique in the case), the variable is created with
// nodeIndex*1_000_000, so a value tells which node it belongs to.
//
// Oracle (1) right node: every DataChangeMessage delivered with NodeID n
// carries a value whose node part is the index of n. Judged on the observed
// stream, no timing involved.
// Oracle (2) convergence: after the writers have stopped and no message has
// arrived for >= 5 publishing intervals, for every still monitored node the
// last delivered value equals a fresh Read. A mismatch is re-checked for up to
// 6 more seconds and then confirmed by re-running the whole case twice on a
// fresh server (DESIGN 3.4); only 3/3 is a violation, otherwise inconclusive.
// Cases with Dropped() > 0 (documented slow-consumer drop) skip clause (2).
package c28

import (
	"context"
	"encoding/json"
	"errors"
	"fmt"
	"os"
	"runtime"
	"sort"
	"strings"
	"sync"
	"testing"
	"time"

	"github.com/gopcua/opcua"
	"github.com/gopcua/opcua/monitor"
	"github.com/gopcua/opcua/ua"
	"pgregory.net/rapid"

	"verif/pkg/ev"
	"verif/pkg/stack"
)

func TestMain(m *testing.M) { ev.Main(m) }

var rec = ev.For("C28", "rapid-drawn histories: 2-6 fresh variables on an in-process server, one monitor.NodeMonitor subscription (callback or channel flavour, publishing interval 50-100 ms), steps AddNodes or AddMonitorItems (with one MonitoringParameters struct per node or one shared by all nodes of the call) / RemoveNodes / write bursts by 2-3 other clients (value = nodeIndex*1e6+k; a burst may keep running during the following Add/Remove steps) / short pauses; one case in eight is 'wide': 101-260 variables, contiguous runs of them added/removed in one call and changed by 1-6 back-to-back WriteRequests that each carry the whole run; non-trivial = (some burst had >= 2 writers, or one WriteRequest changed > 100 monitored nodes) and at least one delivered message carried a written (non-initial) value; distinct by hash of the drawn history")

const million = 1_000_000

// ---------------------------------------------------------------------------
// case

// W is one write of a burst.
type W struct {
	Node  int   `json:"n"`
	Val   int64 `json:"v"`
	Yield int   `json:"y"` // 0 none, 1 Gosched, >=2 sleep (Yield-1)*200us
}

// Step is one step of the history.
type Step struct {
	Op     string `json:"op"`               // add | remove | burst | pause
	Nodes  []int  `json:"nodes,omitempty"`  // add / remove
	Writes [][]W  `json:"writes,omitempty"` // burst: one list per writer
	Async  bool   `json:"async,omitempty"`  // burst keeps running during the following steps
	// Params (add): "" = AddNodes; "own" / "shared" = AddMonitorItems with explicit
	// MonitoringParameters, one struct per node / ONE struct for all nodes of the call
	Params string `json:"params,omitempty"`
	Ms     int    `json:"ms,omitempty"`     // pause
}

// Case is the replayable unit.
type Case struct {
	Vars       int    `json:"vars"`
	Flavour    string `json:"flavour"` // callback | chan
	IntervalMs int    `json:"interval_ms"`
	Writers    int    `json:"writers"`
	Initial    []int  `json:"initial"` // nodes passed to Subscribe / ChanSubscribe
	Steps      []Step `json:"steps"`
	// filled on failure (informational)
	Observed *Observed `json:"observed,omitempty"`
}

// Observed describes what a failing execution saw.
type Observed struct {
	Verdict   string   `json:"verdict"`
	Messages  int      `json:"messages"`
	Delivered uint64   `json:"delivered"`
	Dropped   uint64   `json:"dropped"`
	Tail      []string `json:"tail,omitempty"`
	Others    []string `json:"confirmations,omitempty"`
}

func subset(t *rapid.T, n int, label string, min int) []int {
	var out []int
	for i := 0; i < n; i++ {
		if rapid.Bool().Draw(t, label) {
			out = append(out, i)
		}
	}
	for len(out) < min {
		x := rapid.IntRange(0, n-1).Draw(t, label+"Fill")
		dup := false
		for _, y := range out {
			dup = dup || y == x
		}
		if !dup {
			out = append(out, x)
		}
	}
	sort.Ints(out)
	return out
}

// span draws a contiguous run of node indices (wide cases: one draw per set
// instead of one per node).
func span(t *rapid.T, n int, label string) []int {
	lo, l := 0, n
	if rapid.IntRange(0, 2).Draw(t, label+"Part") == 0 {
		lo = rapid.IntRange(0, n-1).Draw(t, label+"Lo")
		l = rapid.IntRange(1, n).Draw(t, label+"Len")
	}
	var out []int
	for i := lo; i < n && i < lo+l; i++ {
		out = append(out, i)
	}
	return out
}

// genWide: more monitored items on the one subscription than its server side
// notification queue holds (100), nodes added in one call and changed by
// WriteRequests that carry many nodes (added after seeded change C28-B).
func genWide(t *rapid.T) Case {
	c := Case{
		Vars:       rapid.IntRange(101, 260).Draw(t, "wideVars"),
		Flavour:    rapid.SampledFrom([]string{"callback", "chan"}).Draw(t, "flavour"),
		IntervalMs: rapid.SampledFrom([]int{50, 60, 80, 100}).Draw(t, "interval"),
		Writers:    2,
	}
	if rapid.Bool().Draw(t, "initialAll") {
		c.Initial = span(t, c.Vars, "initial")
	}
	k := int64(0)
	nsteps := rapid.IntRange(2, 6).Draw(t, "nsteps")
	for i := 0; i < nsteps; i++ {
		var s Step
		switch x := rapid.IntRange(0, 9).Draw(t, "op"); {
		case x < 3 || (i == 0 && len(c.Initial) == 0):
			s.Op = "add"
			s.Nodes = span(t, c.Vars, "addNode")
		case x < 4:
			s.Op = "remove"
			s.Nodes = span(t, c.Vars, "removeNode")
		case x < 9:
			s.Op = "batch"
			nodes := span(t, c.Vars, "batchNode")
			reps := rapid.IntRange(1, 6).Draw(t, "batchReps")
			for r := 0; r < reps; r++ {
				ws := make([]W, len(nodes))
				for j, n := range nodes {
					k++
					ws[j] = W{Node: n, Val: int64(n)*million + k}
				}
				s.Writes = append(s.Writes, ws)
			}
		default:
			s.Op = "pause"
			s.Ms = rapid.IntRange(0, 150).Draw(t, "pauseMs")
		}
		c.Steps = append(c.Steps, s)
	}
	return c
}

func genCase(t *rapid.T) Case {
	if rapid.IntRange(0, 7).Draw(t, "wide") == 0 {
		return genWide(t)
	}
	c := Case{
		Vars:       rapid.IntRange(2, 6).Draw(t, "vars"),
		Flavour:    rapid.SampledFrom([]string{"callback", "chan"}).Draw(t, "flavour"),
		IntervalMs: rapid.SampledFrom([]int{50, 60, 80, 100}).Draw(t, "interval"),
		Writers:    rapid.IntRange(2, 3).Draw(t, "writers"),
	}
	c.Initial = subset(t, c.Vars, "initial", 0)
	k := int64(0)
	nsteps := rapid.IntRange(3, ev.Pick(9, 14)).Draw(t, "nsteps")
	for i := 0; i < nsteps; i++ {
		var s Step
		switch x := rapid.IntRange(0, 9).Draw(t, "op"); {
		case x < 2:
			s.Op = "add"
			s.Nodes = subset(t, c.Vars, "addNode", 1)
			s.Params = rapid.SampledFrom([]string{"", "", "own", "shared"}).Draw(t, "addParams")
		case x < 4:
			s.Op = "remove"
			s.Nodes = subset(t, c.Vars, "removeNode", 1)
		case x < 9:
			s.Op = "burst"
			s.Async = rapid.Bool().Draw(t, "async")
			hot := rapid.IntRange(0, c.Vars-1).Draw(t, "hotNode")
			for w := 0; w < c.Writers; w++ {
				n := rapid.IntRange(0, 24).Draw(t, "nwrites")
				ws := make([]W, n)
				for j := range ws {
					node := hot
					if rapid.IntRange(0, 9).Draw(t, "spread") < 6 {
						node = rapid.IntRange(0, c.Vars-1).Draw(t, "wnode")
					}
					k++
					ws[j] = W{Node: node, Val: int64(node)*million + k}
					switch y := rapid.IntRange(0, 9).Draw(t, "yieldKind"); {
					case y < 3:
					case y < 5:
						ws[j].Yield = 1
					default:
						ws[j].Yield = 2 + rapid.IntRange(0, 30).Draw(t, "sleep200us")
					}
				}
				s.Writes = append(s.Writes, ws)
			}
		default:
			s.Op = "pause"
			s.Ms = rapid.IntRange(0, 150).Draw(t, "pauseMs")
		}
		c.Steps = append(c.Steps, s)
	}
	return c
}

// ---------------------------------------------------------------------------
// stream collector

type collector struct {
	mu       sync.Mutex
	idx      map[string]int
	n        int
	last     time.Time
	lastVal  map[int]int64 // node -> last delivered value
	wrong    []string      // oracle (1) failures
	errMsgs  int           // messages with Error set (no node id)
	written  int           // messages carrying a non-initial value
	tail     []string
	cbErrors int
}

func (c *collector) add(m *monitor.DataChangeMessage) {
	now := time.Now()
	c.mu.Lock()
	defer c.mu.Unlock()
	c.n++
	c.last = now
	var line string
	switch {
	case m == nil:
		line = "nil message"
		c.wrong = append(c.wrong, line)
	case m.Error != nil:
		c.errMsgs++
		line = "error: " + m.Error.Error()
		if m.NodeID != nil {
			line += " (node " + m.NodeID.String() + ")"
		}
	case m.NodeID == nil:
		line = "message without error and without node id"
		c.wrong = append(c.wrong, line)
	default:
		nid := m.NodeID.String()
		i, known := c.idx[nid]
		var v any
		if m.DataValue != nil && m.DataValue.Value != nil {
			v = m.DataValue.Value.Value()
		}
		iv, isInt := v.(int64)
		line = fmt.Sprintf("%s <- %v", nid, v)
		switch {
		case !known:
			c.wrong = append(c.wrong, fmt.Sprintf("message names node %s which was never registered on this monitor", nid))
		case !isInt:
			st := ua.StatusOK
			if m.DataValue != nil {
				st = m.DataValue.Status
			}
			c.wrong = append(c.wrong, fmt.Sprintf("message for node #%d (%s) carries %T %v (status %v), which nobody wrote to that node", i, nid, v, v, st))
		case iv/million != int64(i) || iv < 0:
			c.wrong = append(c.wrong, fmt.Sprintf("message names node #%d (%s) but carries value %d, which was written to node #%d", i, nid, iv, iv/million))
		default:
			c.lastVal[i] = iv
			if iv%million != 0 {
				c.written++
			}
		}
	}
	c.tail = append(c.tail, line)
	if len(c.tail) > 40 {
		c.tail = c.tail[len(c.tail)-40:]
	}
}

// ---------------------------------------------------------------------------
// fixture

var errInfra = errors.New("infrastructure")

func infra(format string, args ...any) error {
	return fmt.Errorf("%w: %s", errInfra, fmt.Sprintf(format, args...))
}

var (
	fixMu   sync.Mutex
	shared  *stack.Server
	caseSeq int
)

func connect(url string) (*opcua.Client, error) {
	return stack.Connect(url, opcua.SecurityMode(ua.MessageSecurityModeNone), opcua.RequestTimeout(10*time.Second), opcua.AutoReconnect(false))
}

func closeClient(c *opcua.Client) {
	if c == nil {
		return
	}
	ctx, cancel := context.WithTimeout(context.Background(), 3*time.Second)
	_ = c.Close(ctx)
	cancel()
}

// serverIdle reports whether the server holds no subscription and no monitored
// item and no publish goroutine of an earlier subscription is still alive. The
// last part matters: (*Subscription).run deletes "its" subscription by id once
// more when it returns, and the server derives new ids from len(Subs), so a
// late exit of the previous case's goroutine would delete the next case's
// subscription (the id reuse is C32's finding, not this property's subject).
func serverIdle(s *stack.Server) bool {
	ss, ms := s.S.SubscriptionService, s.S.MonitoredItemService
	ss.Mu.Lock()
	n := len(ss.Subs)
	ss.Mu.Unlock()
	ms.Mu.Lock()
	n += len(ms.Items)
	ms.Mu.Unlock()
	if n != 0 {
		return false
	}
	buf := make([]byte, 1<<20)
	for {
		m := runtime.Stack(buf, true)
		if m < len(buf) {
			buf = buf[:m]
			break
		}
		buf = make([]byte, 2*len(buf))
	}
	return !strings.Contains(string(buf), "server.(*Subscription).run")
}

// result of one execution
type result struct {
	verdict  string // "" = held
	timing   bool   // verdict is the timing-dependent convergence clause
	classes  []string
	nontriv  bool
	observed Observed
}

// execute runs the case. fresh = use a server of its own (confirmation runs).
func execute(c Case, fresh bool) (res result, err error) {
	fixMu.Lock()
	defer fixMu.Unlock()
	var s *stack.Server
	if fresh {
		s, err = stack.StartServer(stack.ServerOpts{})
		if err != nil {
			return res, infra("server: %v", err)
		}
		defer s.Close()
	} else {
		if shared == nil {
			shared, err = stack.StartServer(stack.ServerOpts{})
			if err != nil {
				return res, infra("server: %v", err)
			}
		}
		s = shared
		defer func() {
			// the next case must meet a server without leftovers of this one
			deadline := time.Now().Add(4 * time.Second)
			for !serverIdle(s) && time.Now().Before(deadline) {
				time.Sleep(10 * time.Millisecond)
			}
			if !serverIdle(s) || err != nil {
				go s.Close()
				shared = nil
			}
			if os.Getenv("VERIF_C28_DEBUG") != "" {
				fmt.Printf("c28 case %d: idle wait ended %v after teardown began (server kept: %v)\n", caseSeq, time.Since(deadline.Add(-4*time.Second)).Round(time.Millisecond), shared != nil)
			}
		}()
	}
	caseSeq++
	t0 := time.Now()
	phase := func(name string) {
		if os.Getenv("VERIF_C28_DEBUG") != "" {
			fmt.Printf("c28 case %d: %-12s at %v\n", caseSeq, name, time.Since(t0).Round(time.Millisecond))
		}
	}
	defer phase("torn down")
	ids := make([]*ua.NodeID, c.Vars)
	names := make([]string, c.Vars)
	col := &collector{idx: map[string]int{}, lastVal: map[int]int64{}, last: time.Now()}
	for i := 0; i < c.Vars; i++ {
		name := fmt.Sprintf("c28_%d_%d", caseSeq, i)
		s.AddVariable(name, int64(i)*million)
		ids[i] = s.NodeID(name)
		names[i] = ids[i].String()
		col.idx[names[i]] = i
	}

	// clients
	mc, e := connect(s.URL)
	if e != nil {
		return res, infra("connect monitor client: %v", e)
	}
	defer closeClient(mc)
	writers := make([]*opcua.Client, c.Writers)
	for i := range writers {
		w, e := connect(s.URL)
		if e != nil {
			return res, infra("connect writer: %v", e)
		}
		writers[i] = w
		defer closeClient(w)
	}

	phase("connected")
	nm, e := monitor.NewNodeMonitor(mc)
	if e != nil {
		return res, infra("NewNodeMonitor: %v", e)
	}
	nm.SetErrorHandler(func(_ *opcua.Client, _ *monitor.Subscription, err error) {
		col.mu.Lock()
		col.cbErrors++
		col.tail = append(col.tail, "error handler: "+err.Error())
		col.mu.Unlock()
	})
	params := &opcua.SubscriptionParameters{Interval: time.Duration(c.IntervalMs) * time.Millisecond, MaxKeepAliveCount: 5, LifetimeCount: 2000}
	subCtx, subCancel := context.WithCancel(context.Background())
	defer subCancel()
	initial := make([]string, len(c.Initial))
	mon := make([]int, c.Vars) // monitored items per node (model)
	for i, n := range c.Initial {
		initial[i] = names[n]
		mon[n]++
	}
	var sub *monitor.Subscription
	stopReader := make(chan struct{})
	readerDone := make(chan struct{})
	if c.Flavour == "chan" {
		ch := make(chan *monitor.DataChangeMessage, 1<<16)
		go func() {
			defer close(readerDone)
			for {
				select {
				case m := <-ch:
					col.add(m)
				case <-stopReader:
					return
				}
			}
		}()
		sub, e = nm.ChanSubscribe(subCtx, params, ch, initial...)
	} else {
		close(readerDone)
		sub, e = nm.Subscribe(subCtx, params, func(_ *monitor.Subscription, m *monitor.DataChangeMessage) { col.add(m) }, initial...)
	}
	if e != nil {
		close(stopReader)
		return res, infra("subscribe: %v", e)
	}
	defer func() {
		uctx, cancel := context.WithTimeout(context.Background(), 5*time.Second)
		_ = sub.Unsubscribe(uctx)
		cancel()
		subCancel()
		close(stopReader)
		<-readerDone
	}()

	phase("subscribed")
	// steps
	var (
		wg        sync.WaitGroup
		werrMu    sync.Mutex
		werr      error
		classes   = map[string]bool{}
		removed   = make([]bool, c.Vars) // node was removed at least once
		multiW    bool
		batchWide bool
		asyncLive bool
	)
	join := func() { wg.Wait(); asyncLive = false }
	opCtx := func() (context.Context, context.CancelFunc) {
		return context.WithTimeout(context.Background(), 20*time.Second)
	}
	for _, st := range c.Steps {
		switch st.Op {
		case "add":
			nodes := make([]string, len(st.Nodes))
			for i, n := range st.Nodes {
				nodes[i] = names[n]
				if mon[n] > 0 {
					classes["duplicate-item-for-a-node"] = true
				} else if removed[n] {
					classes["node-removed-then-re-added"] = true
				}
				mon[n]++
			}
			if asyncLive {
				classes["add-while-writers-run"] = true
			}
			ctx, cancel := opCtx()
			var e error
			if st.Params == "" {
				e = sub.AddNodes(ctx, nodes...)
			} else {
				mk := func() *ua.MonitoringParameters {
					return &ua.MonitoringParameters{SamplingInterval: 10, QueueSize: 10, DiscardOldest: true}
				}
				shared := mk()
				var reqs []monitor.Request
				for _, n := range st.Nodes {
					r := monitor.Request{NodeID: ids[n], MonitoringMode: ua.MonitoringModeReporting, MonitoringParameters: mk()}
					if st.Params == "shared" {
						r.MonitoringParameters = shared
					}
					reqs = append(reqs, r)
				}
				classes["add-with-MonitoringParameters:"+st.Params] = true
				if st.Params == "shared" && len(st.Nodes) > 1 {
					classes["one-MonitoringParameters-struct-shared-by-several-nodes"] = true
				}
				_, e = sub.AddMonitorItems(ctx, reqs...)
			}
			cancel()
			if e != nil {
				join()
				return res, infra("AddNodes/AddMonitorItems(%v): %v", nodes, e)
			}
		case "remove":
			nodes := make([]string, len(st.Nodes))
			for i, n := range st.Nodes {
				nodes[i] = names[n]
				if mon[n] > 0 {
					mon[n]--
					removed[n] = true
					classes["remove-monitored-node"] = true
				} else {
					classes["remove-unmonitored-node(no-op)"] = true
				}
			}
			if asyncLive {
				classes["remove-while-writers-run"] = true
			}
			ctx, cancel := opCtx()
			e := sub.RemoveNodes(ctx, nodes...)
			cancel()
			if e != nil {
				join()
				return res, infra("RemoveNodes(%v): %v", nodes, e)
			}
		case "burst":
			join() // at most one burst at a time
			active := 0
			for wi, ws := range st.Writes {
				if len(ws) == 0 || wi >= len(writers) {
					continue
				}
				active++
				wg.Add(1)
				go func(cl *opcua.Client, ws []W) {
					defer wg.Done()
					for _, w := range ws {
						switch {
						case w.Yield == 1:
							runtime.Gosched()
						case w.Yield >= 2:
							time.Sleep(time.Duration(w.Yield-1) * 200 * time.Microsecond)
						}
						ctx, cancel := opCtx()
						stc, e := stack.WriteValue(ctx, cl, ids[w.Node], w.Val)
						cancel()
						if e == nil && stc != ua.StatusOK {
							e = stc
						}
						if e != nil {
							werrMu.Lock()
							werr = fmt.Errorf("write %d to node #%d: %v", w.Val, w.Node, e)
							werrMu.Unlock()
							return
						}
					}
				}(writers[wi], ws)
			}
			if active >= 2 {
				multiW = true
			}
			if st.Async {
				asyncLive = true
			} else {
				join()
			}
		case "batch":
			// every inner list is ONE WriteRequest, sent back to back by writer 0
			join()
			for _, ws := range st.Writes {
				req := &ua.WriteRequest{}
				nmonW := 0
				for _, w := range ws {
					va, _ := ua.NewVariant(w.Val)
					req.NodesToWrite = append(req.NodesToWrite, &ua.WriteValue{NodeID: ids[w.Node], AttributeID: ua.AttributeIDValue,
						Value: &ua.DataValue{EncodingMask: ua.DataValueValue, Value: va}})
					if mon[w.Node] > 0 {
						nmonW++
					}
				}
				if nmonW > 100 {
					batchWide = true
					classes["one-WriteRequest-changes->100-monitored-nodes"] = true
				}
				ctx, cancel := opCtx()
				resp, e := writers[0].Write(ctx, req)
				cancel()
				if e == nil {
					for _, stc := range resp.Results {
						if stc != ua.StatusOK {
							e = stc
						}
					}
				}
				if e != nil {
					return res, infra("batch write of %d nodes: %v", len(ws), e)
				}
			}
		case "pause":
			time.Sleep(time.Duration(st.Ms) * time.Millisecond)
		}
	}
	join()
	phase("steps done")
	writersDone := time.Now()
	if werr != nil {
		return res, infra("%v", werr)
	}

	// ---- judge
	interval := time.Duration(c.IntervalMs) * time.Millisecond
	quiet := 5 * interval
	deadline := time.Now().Add(10 * time.Second)
	for {
		col.mu.Lock()
		ref := col.last
		col.mu.Unlock()
		if writersDone.After(ref) {
			ref = writersDone
		}
		if time.Since(ref) >= quiet {
			break
		}
		if time.Now().After(deadline) {
			classes["stream-never-quiet-within-10s"] = true
			break
		}
		time.Sleep(10 * time.Millisecond)
	}

	phase("quiet")
	reader := writers[0]
	// diverged returns a description of every monitored node whose last
	// delivered value differs from a fresh Read ("" = converged)
	diverged := func() (string, error) {
		var bad []string
		for n := 0; n < c.Vars; n++ {
			if mon[n] == 0 {
				continue
			}
			ctx, cancel := opCtx()
			dv, e := stack.ReadValue(ctx, reader, ids[n])
			cancel()
			if e != nil {
				return "", infra("final read of node #%d: %v", n, e)
			}
			cur, ok := int64(0), false
			if dv != nil && dv.Value != nil {
				cur, ok = dv.Value.Value().(int64)
			}
			if !ok {
				return "", infra("final read of node #%d returned %v", n, dv)
			}
			col.mu.Lock()
			last, seen := col.lastVal[n]
			col.mu.Unlock()
			switch {
			case !seen:
				bad = append(bad, fmt.Sprintf("node #%d is monitored, its value is %d, but no value was ever delivered for it", n, cur))
			case last != cur:
				bad = append(bad, fmt.Sprintf("node #%d: last delivered value %d, current value %d", n, last, cur))
			}
		}
		return strings.Join(bad, "; "), nil
	}

	dropped := sub.Dropped()
	if dropped > 0 {
		classes["dropped>0(convergence-clause-skipped)"] = true
	} else {
		d, e := diverged()
		if e != nil {
			return res, e
		}
		if d != "" {
			// DESIGN 3.4: a timing verdict is re-checked after waiting longer
			until := time.Now().Add(6 * time.Second)
			for d != "" && time.Now().Before(until) {
				time.Sleep(50 * time.Millisecond)
				if d, e = diverged(); e != nil {
					return res, e
				}
			}
			if d == "" {
				classes["converged-only-after-extra-wait"] = true
			} else if sub.Dropped() > 0 {
				classes["dropped>0(convergence-clause-skipped)"] = true
			} else {
				res.verdict = "no convergence " + fmt.Sprint(time.Since(writersDone).Round(time.Millisecond)) + " after the last write: " + d
				res.timing = true
			}
		}
	}

	phase("judged")
	col.mu.Lock()
	if len(col.wrong) > 0 {
		// oracle (1) outranks (2): it does not depend on time
		res.verdict = fmt.Sprintf("%d wrongly attributed message(s), first: %s", len(col.wrong), col.wrong[0])
		res.timing = false
	}
	res.observed = Observed{Verdict: res.verdict, Messages: col.n, Delivered: sub.Delivered(), Dropped: sub.Dropped(), Tail: append([]string(nil), col.tail...)}
	if col.errMsgs > 0 {
		classes["message-with-error(handle-not-found)"] = true
	}
	if col.cbErrors > 0 {
		classes["error-handler-called"] = true
	}
	switch {
	case col.n == 0:
		classes["messages=0"] = true
	case col.n < 10:
		classes["messages=1-9"] = true
	case col.n < 50:
		classes["messages=10-49"] = true
	default:
		classes["messages>=50"] = true
	}
	res.nontriv = (multiW || batchWide) && col.written > 0
	nmon, unwrittenReadded := 0, false
	for n := 0; n < c.Vars; n++ {
		if mon[n] > 0 {
			nmon++
			if v, ok := col.lastVal[n]; ok && v%million == 0 && removed[n] {
				unwrittenReadded = true
			}
		}
	}
	col.mu.Unlock()
	if unwrittenReadded {
		classes["re-added-node-converged-on-initial-value"] = true
	}
	classes[fmt.Sprintf("monitored-at-end=%d", min(nmon, 4))] = true
	classes["flavour="+c.Flavour] = true
	if c.Vars > 100 {
		classes["vars>100(wide)"] = true
		if nmon > 100 {
			classes["monitored-at-end>100"] = true
		}
	} else {
		classes[fmt.Sprintf("vars=%d", c.Vars)] = true
	}
	for k := range classes {
		res.classes = append(res.classes, k)
	}
	sort.Strings(res.classes)
	return res, nil
}

// ---------------------------------------------------------------------------
// verdict with confirmation

// decide executes the case and applies the confirmation rule of DESIGN 3.4 to
// the timing dependent clause. Returns the violation message ("" = held).
func decide(c *Case, log func(string, ...any)) (msg string, res result, err error) {
	res, err = execute(*c, false)
	if err != nil || res.verdict == "" {
		return "", res, err
	}
	obs := res.observed
	defer func() {
		if msg == "" && err == nil {
			// keep what an unconfirmed failure looked like in the shard log
			cj, _ := json.Marshal(c)
			oj, _ := json.Marshal(obs)
			fmt.Printf("C28 INCONCLUSIVE first run: %s\n  observed: %s\n  case: %s\n", res.verdict, oj, cj)
		}
	}()
	if !res.timing {
		c.Observed = &obs
		return res.verdict, res, nil
	}
	// clause (2) depends on real time: 3/3 or inconclusive
	for i := 0; i < 2; i++ {
		r2, e2 := execute(*c, true)
		if e2 != nil {
			log("confirmation run %d: %v", i+1, e2)
			rec.Inconclusive()
			res.classes = append(res.classes, "inconclusive(confirmation-not-3/3)")
			return "", res, nil
		}
		obs.Others = append(obs.Others, r2.verdict)
		if r2.verdict == "" {
			log("convergence failure not confirmed (run %d held): %s", i+2, res.verdict)
			rec.Inconclusive()
			res.classes = append(res.classes, "inconclusive(confirmation-not-3/3)")
			return "", res, nil
		}
	}
	c.Observed = &obs
	return res.verdict + " (confirmed 3/3 on fresh servers)", res, nil
}

func TestMonitor(t *testing.T) {
	rec.Assume("trusted base: the writers' and the reader's gopcua clients as observers; the value encoding nodeIndex*1e6+k; wall-clock quiescence (5 publishing intervals without a message after the writers returned), re-checked for 6 s and confirmed 3/3 on fresh servers before a convergence failure is reported")
	rec.Assume("benign parameters: MaxKeepAliveCount 5, LifetimeCount 2000, request timeout 10 s, channel buffer 65536, consumers only append to a slice; any error of AddNodes/RemoveNodes/Write/Read on the healthy loopback server is an infrastructure failure (exit 2), never a violation")
	rapid.Check(t, func(rt *rapid.T) {
		c := genCase(rt)
		rec.Journal("TestMonitor", c)
		msg, res, err := decide(&c, func(f string, a ...any) { rt.Logf(f, a...) })
		rec.JournalDone("TestMonitor")
		if err != nil {
			t.Fatalf("infrastructure failure (not a violation): %v", err)
		}
		cc := c
		cc.Observed = nil
		b, _ := json.Marshal(cc)
		rec.Case(res.nontriv, ev.Hash(b), res.classes...)
		if res.nontriv && rec.WantSample() {
			rec.Sample(cc)
		}
		if msg != "" {
			rec.Fail(rt, "TestMonitor", c, "%s", msg)
		}
	})
}

// TestReplay re-executes a saved history without rapid (3 runs: the outcome
// depends on real time; any failing run that passes the confirmation rule fails).
func TestReplay(t *testing.T) {
	rp, err := ev.LoadReplay()
	if err != nil {
		t.Fatal(err)
	}
	if rp == nil {
		t.Skip("no VERIF_REPLAY")
	}
	var c Case
	if err := json.Unmarshal(rp.Case, &c); err != nil {
		t.Fatal(err)
	}
	c.Observed = nil
	fmt.Println("REPLAYED structured")
	for i := 0; i < 3; i++ {
		cc := c
		msg, _, err := decide(&cc, func(f string, a ...any) { fmt.Printf(f+"\n", a...) })
		if err != nil {
			t.Skipf("infrastructure failure (not a violation): %v", err)
		}
		if msg != "" {
			b, _ := json.Marshal(cc.Observed)
			t.Fatalf("property C28 violated (run %d): %s\n%s", i+1, msg, b)
		}
	}
	fmt.Println("3 re-executions held")
}
