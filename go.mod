module verif

go 1.23

require (
	github.com/anishathalye/porcupine v1.3.0
	github.com/gopcua/opcua v0.0.0
	pgregory.net/rapid v1.3.0
)

replace github.com/gopcua/opcua => /repo
