module verif

go 1.23

require (
	github.com/anishathalye/porcupine v1.3.0
	github.com/gopcua/opcua v0.0.0
	pgregory.net/rapid v1.3.0
)

require github.com/google/uuid v1.6.0 // indirect

replace github.com/gopcua/opcua => /repo
