package main

func init() {
	plans["C07"] = Plan{Pkg: pkg("C07"), Steps: []Step{
		// self-test of the message builders (a failure is an infrastructure problem, not a violation)
		{Run: "TestMessages", Kind: "test"},
		// one check = one channel pair (RSA handshake) carrying 1-4 request/response exchanges plus a sentinel
		{Run: "TestChunking", Quick: 640, Thorough: 10000, QShards: 16, TShards: 16},
	}}
}
