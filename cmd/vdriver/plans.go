package main

import (
	"context"
	"fmt"
	"os"
	"os/exec"
	"path/filepath"
	"strings"
	"syscall"
	"time"
)

// Step is one invocation family of a property's test binary.
type Step struct {
	Run        string // test function name (anchored)
	ReplayRun  string // name recorded in replay files when it differs from Run
	Kind       string // "rapid" (default), "test" (plain go test function), "fuzz" (native fuzzing, thorough only)
	Quick      int    // rapid checks in the quick tier (0 = step disabled in quick)
	Thorough   int    // rapid checks in the thorough tier (0 = step disabled in thorough)
	QShards    int    // processes in quick (default 1)
	TShards    int    // processes in thorough (default 8)
	Race       bool   // build with -race
	MemMB      int    // RLIMIT_AS for the child (0 = none)
	QTimeout   time.Duration
	TTimeout   time.Duration
	Parallel   int
	Env        []string
	FuzzTime   time.Duration // kind fuzz
	FullChecks bool          // every shard runs the full number of checks (the test partitions its own domain by VERIF_SHARD)
}

// Plan is the list of steps of one property.
type Plan struct {
	Pkg   string
	Level string
	Steps []Step
}

func (p Plan) level() string {
	if p.Level == "" {
		return "exploration"
	}
	return p.Level
}

func (s Step) enabled(tier string) bool {
	if s.Kind == "fuzz" {
		return tier == "thorough"
	}
	if s.Kind == "test" {
		if tier == "quick" {
			return s.Quick >= 0
		}
		return s.Thorough >= 0
	}
	if tier == "quick" {
		return s.Quick > 0
	}
	return s.Thorough > 0
}

func (s Step) checks(tier string) int {
	if tier == "quick" {
		return s.Quick
	}
	return s.Thorough
}

func (s Step) shards(tier string) int {
	if s.Kind == "test" && ((tier == "quick" && s.QShards == 0) || (tier != "quick" && s.TShards == 0)) {
		return 1
	}
	if tier == "quick" {
		if s.QShards > 0 {
			return s.QShards
		}
		return 1
	}
	if s.TShards > 0 {
		return s.TShards
	}
	return 8
}

func (s Step) timeout(tier string) time.Duration {
	if tier == "quick" {
		if s.QTimeout > 0 {
			return s.QTimeout
		}
		return 10 * time.Minute
	}
	if s.TTimeout > 0 {
		return s.TTimeout
	}
	return 60 * time.Minute
}

func pkg(id string) string { return "./props/" + strings.ToLower(id) }

// plans is filled by the init functions of the plan_cNN.go files.
var plans = map[string]Plan{}

// runFuzz runs one native fuzz campaign (thorough tier only). A crasher written
// by the fuzzer becomes the replay file; the fuzz target carries the oracle.
func runFuzz(prop string, plan Plan, st Step, si int, tier, runDir, partDir, repDir string) shardResult {
	ft := st.FuzzTime
	if ft == 0 {
		ft = 3 * time.Minute
	}
	pkgDir := filepath.Join(root, strings.TrimPrefix(plan.Pkg, "./"))
	crashDir := filepath.Join(pkgDir, "testdata", "fuzz", st.Run)
	before := map[string]bool{}
	if es, err := os.ReadDir(crashDir); err == nil {
		for _, e := range es {
			before[e.Name()] = true
		}
	}
	ctx, cancel := context.WithTimeout(context.Background(), ft+5*time.Minute)
	defer cancel()
	cmd := exec.CommandContext(ctx, "go", "test", "-tags", "verif", "-vet=off", "-run", "^$", "-fuzz", "^"+st.Run+"$",
		"-fuzztime", ft.String(), plan.Pkg)
	cmd.Dir = root
	cmd.SysProcAttr = &syscall.SysProcAttr{Setpgid: true}
	cmd.Cancel = func() error { return syscall.Kill(-cmd.Process.Pid, syscall.SIGKILL) }
	cmd.Env = append(goEnv(), "VERIF_TIER="+tier, "VERIF_PART_DIR="+partDir, "VERIF_REPLAY_DIR="+repDir, "VERIF_FUZZING=1")
	logPath := filepath.Join(runDir, fmt.Sprintf("log-%d-fuzz.txt", si))
	lf, _ := os.Create(logPath)
	cmd.Stdout, cmd.Stderr = lf, lf
	t0 := time.Now()
	err := cmd.Run()
	lf.Close()
	r := shardResult{step: si, name: st.Run, log: logPath, dur: time.Since(t0)}
	if ctx.Err() == context.DeadlineExceeded {
		r.timedOut, r.exit = true, -1
		return r
	}
	if err != nil {
		r.exit = 1
		// new crashers -> replay files
		if es, e2 := os.ReadDir(crashDir); e2 == nil {
			for _, e := range es {
				if before[e.Name()] {
					continue
				}
				b, _ := os.ReadFile(filepath.Join(crashDir, e.Name()))
				rp := fmt.Sprintf("{\n \"property\": %q,\n \"test\": %q,\n \"message\": \"native fuzz crasher\",\n \"case\": {\"go_fuzz_corpus_file\": %q}\n}\n", prop, st.Run, string(b))
				_ = os.WriteFile(filepath.Join(repDir, fmt.Sprintf("%s-%s-fuzz-%s.json", prop, st.Run, e.Name())), []byte(rp), 0o644)
				// a crasher left in testdata/fuzz would be re-run (and fail) on every later build
				_ = os.Remove(filepath.Join(crashDir, e.Name()))
			}
		}
	}
	return r
}
