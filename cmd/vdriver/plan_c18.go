package main

func init() {
	plans["C18"] = Plan{Pkg: pkg("C18"), Steps: []Step{
		// every case costs real time (a dropped request waits for its timeout):
		// concurrency comes from the shard processes
		{Run: "TestOwnResponse", Quick: 384, Thorough: 8000, QShards: 24, TShards: 32},
	}}
}
