package main

import "time"

func init() {
	plans["C35"] = Plan{Pkg: pkg("C35"), Steps: []Step{
		{Run: "TestExhaustive", Kind: "test", QTimeout: 10 * time.Minute, TTimeout: 60 * time.Minute},
		{Run: "TestSessionRequired", Quick: 2400, Thorough: 120000, QShards: 8, TShards: 16, QTimeout: 10 * time.Minute, TTimeout: 60 * time.Minute},
	}}
}
