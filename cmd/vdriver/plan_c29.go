package main

import "time"

func init() {
	plans["C29"] = Plan{Pkg: pkg("C29"), Steps: []Step{
		{Run: "TestAttack", Quick: 400, Thorough: 12000, QShards: 8, TShards: 16, MemMB: 8192, QTimeout: 8 * time.Minute, TTimeout: 60 * time.Minute},
		{Run: "TestRegressionCases", Kind: "test", ReplayRun: "TestAttack", QTimeout: 4 * time.Minute, TTimeout: 4 * time.Minute},
		{Run: "TestNonReader", Kind: "test", QTimeout: 4 * time.Minute, TTimeout: 4 * time.Minute},
	}}
}
