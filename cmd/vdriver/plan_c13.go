package main

func init() {
	plans["C13"] = Plan{Pkg: pkg("C13"), Steps: []Step{
		// hostile peer -> gopcua server channels; panics are recovered in the harness goroutine
		{Run: "TestServer", Quick: 3200, Thorough: 60000, QShards: 16, TShards: 16, MemMB: 8192},
		// hostile peer -> gopcua client channels; a dispatcher panic ends the child, the journal names the case
		{Run: "TestClient", Quick: 1600, Thorough: 30000, QShards: 16, TShards: 16, MemMB: 8192},
		// a well-formed OpenSecureChannelResponse with fitting request id and sequence number in the middle of an open channel
		{Run: "TestOPNResponseMidStream", Quick: 160, Thorough: 3000, QShards: 8, TShards: 16, MemMB: 8192},
	}}
}
