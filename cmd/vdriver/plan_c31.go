package main

import "time"

func init() {
	plans["C31"] = Plan{Pkg: pkg("C31"), Steps: []Step{
		{Run: "TestAccess", Quick: 1600, Thorough: 80000, QShards: 8, TShards: 16, QTimeout: 5 * time.Minute, TTimeout: 30 * time.Minute},
	}}
}
