package main

import "time"

func init() {
	plans["C31"] = Plan{Pkg: pkg("C31"), Steps: []Step{
		{Run: "TestAccess", Quick: 6400, Thorough: 120000, QShards: 8, TShards: 16, QTimeout: 5 * time.Minute, TTimeout: 30 * time.Minute},
	}}
}
