package main

func init() {
	plans["C28"] = Plan{Pkg: pkg("C28"), Steps: []Step{
		{Run: "TestMonitor", Quick: 160, Thorough: 2400, QShards: 16, TShards: 16},
	}}
}
