package main

import "time"

func init() {
	plans["C02"] = Plan{Pkg: pkg("C02"), Steps: []Step{
		{Run: "TestDecodeHostile", Quick: 60000, Thorough: 3000000, QShards: 8, TShards: 16, MemMB: 8192},
		{Run: "TestDecodeService", Quick: 12000, Thorough: 400000, QShards: 4, TShards: 8, MemMB: 8192},
		{Run: "TestTowers", Quick: 40, Thorough: 400, QShards: 2, TShards: 4, MemMB: 8192},
		{Run: "TestTowerLimit", Kind: "test", QTimeout: 3 * time.Minute},
		{Run: "FuzzDecodeAny", Kind: "fuzz", FuzzTime: 4 * time.Minute},
	}}
}
