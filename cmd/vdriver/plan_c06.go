package main

func init() {
	plans["C06"] = Plan{Pkg: pkg("C06"), Steps: []Step{
		{Run: "TestLimits", Quick: 400, Thorough: 8000, QShards: 8, TShards: 16},
		{Run: "TestSharedListener", Quick: 320, Thorough: 8000, QShards: 4, TShards: 8},
	}}
}
