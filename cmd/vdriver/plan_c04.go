package main

func init() {
	plans["C04"] = Plan{Pkg: pkg("C04"), Steps: []Step{
		{Run: "TestRoundTrip", Quick: 150000, Thorough: 4000000, QShards: 4, TShards: 16},
		{Run: "TestEqual", Quick: 150000, Thorough: 4000000, QShards: 4, TShards: 16},
		{Run: "TestExpandedNSU", Quick: 100000, Thorough: 2000000, QShards: 4, TShards: 16},
		{Run: "TestRegistry", Quick: 100000, Thorough: 2000000, QShards: 4, TShards: 16},
	}}
}
