package main

import "time"

func init() {
	plans["C25"] = Plan{Pkg: pkg("C25"), Steps: []Step{
		// every case costs real time (outages, timeouts, the quiet window after
		// Close): concurrency comes from the shard processes, one case at a time
		// per process (goroutine baseline and starvation gate are process-wide)
		{Run: "TestLifecycle", Quick: 96, Thorough: 1920, QShards: 16, TShards: 32, QTimeout: 12 * time.Minute, TTimeout: 60 * time.Minute},
	}}
}
