package main

func init() {
	plans["C19"] = Plan{Pkg: pkg("C19"), Steps: []Step{
		// every case costs real time (timeouts are waited for): concurrency comes
		// from the shard processes, one case at a time per process because the
		// uasc scheduling point callback is process-wide
		{Run: "TestTimeouts", Quick: 320, Thorough: 4000, QShards: 24, TShards: 32},
		// multi-chunk responses that are cut off (the call times out), then a complete one
		{Run: "TestPartialResponses", Quick: 64, Thorough: 1200, QShards: 8, TShards: 16},
	}}
}
