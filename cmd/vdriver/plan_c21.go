package main

import "time"

func init() {
	plans["C21"] = Plan{Pkg: pkg("C21"), Steps: []Step{
		// one program = script server + client + 3-8 operations + publish traffic: ~0.1-0.2 s;
		// a panic in one of gopcua's own goroutines kills the shard: the journal names the program
		{Run: "TestPrograms", Quick: 1600, Thorough: 24000, QShards: 16, TShards: 16, MemMB: 8192, QTimeout: 8 * time.Minute, TTimeout: 90 * time.Minute},
	}}
}
