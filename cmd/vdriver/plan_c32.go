package main

import "time"

func init() {
	plans["C32"] = Plan{Pkg: pkg("C32"), Steps: []Step{
		{Run: "TestIDs", Quick: 480, Thorough: 16000, QShards: 8, TShards: 16, QTimeout: 5 * time.Minute, TTimeout: 40 * time.Minute},
	}}
}
