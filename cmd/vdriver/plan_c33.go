package main

import "time"

func init() {
	plans["C33"] = Plan{Pkg: pkg("C33"), Steps: []Step{
		{Run: "TestBrowseNS0", Kind: "test", QTimeout: 10 * time.Minute, TTimeout: 60 * time.Minute},
		{Run: "TestBrowseGenerated", Quick: 360, Thorough: 12000, QShards: 8, TShards: 16, QTimeout: 10 * time.Minute, TTimeout: 60 * time.Minute},
	}}
}
