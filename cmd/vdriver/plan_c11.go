package main

func init() {
	plans["C11"] = Plan{Pkg: pkg("C11"), Steps: []Step{
		{Run: "TestSequenceNumbers", Quick: 320, Thorough: 8000, QShards: 16, TShards: 16},
	}}
}
