// vdriver runs one property check: (re)builds the property's test binary from
// /repo's current working tree with -tags verif, runs its steps (sharded rapid
// runs, plain tests, native fuzz campaigns) under a watchdog, merges the
// evidence parts into /verif/evidence/<id>.json, applies KNOWN_FINDINGS.txt and
// prints VIOLATION / KNOWN-FINDING lines.
//
//	vdriver <Cnn> <quick|thorough>
//	vdriver <Cnn> --replay FILE
//
// Exit codes: 0 held, 1 violation, 2 infrastructure problem / inconclusive.
package main

import (
	"bufio"
	"context"
	"crypto/sha256"
	"encoding/json"
	"fmt"
	"io"
	"os"
	"os/exec"
	"path/filepath"
	"sort"
	"strconv"
	"strings"
	"sync"
	"syscall"
	"time"
)

var root = func() string {
	if r := os.Getenv("VERIF_ROOT"); r != "" {
		return r
	}
	return "/verif"
}()

func goEnv() []string {
	env := os.Environ()
	env = append(env, "GOFLAGS=-mod=mod", "GOPROXY=off", "GOSUMDB=off", "GOTOOLCHAIN=local", "VERIF_ROOT="+root)
	return env
}

func die(code int, format string, args ...any) {
	fmt.Fprintf(os.Stderr, "vdriver: "+format+"\n", args...)
	os.Exit(code)
}

func main() {
	if len(os.Args) < 3 {
		die(2, "usage: vdriver <Cnn> <quick|thorough> | vdriver <Cnn> --replay FILE")
	}
	prop := strings.ToUpper(os.Args[1])
	plan, ok := plans[prop]
	if !ok {
		die(2, "no plan for property %s", prop)
	}
	if os.Args[2] == "--replay" {
		if len(os.Args) < 4 {
			die(2, "--replay needs a file")
		}
		os.Exit(replay(prop, plan, os.Args[3]))
	}
	tier := os.Args[2]
	if tier != "quick" && tier != "thorough" {
		die(2, "tier must be quick or thorough")
	}
	if t := os.Getenv("VERIF_TIER"); t == "quick" || t == "thorough" {
		// the command line wins; VERIF_TIER is informational
		_ = t
	}
	os.Exit(run(prop, plan, tier))
}

func seed() int64 {
	s, err := strconv.ParseInt(os.Getenv("VERIF_SEED"), 10, 64)
	if err != nil {
		return 1
	}
	return s
}

func rapidSeed(seed int64, step, shard int) uint64 {
	x := uint64(seed)*0x9E3779B97F4A7C15 + uint64(step+1)*0xBF58476D1CE4E5B9 + uint64(shard+1)*0x94D049BB133111EB
	x ^= x >> 31
	x = x%(1<<62) | 1
	return x
}

func build(prop string, plan Plan, race bool) (string, error) {
	bin := filepath.Join(root, "bin", strings.ToLower(prop)+".test")
	args := []string{"test", "-c", "-tags", "verif", "-vet=off"}
	if race {
		bin = filepath.Join(root, "bin", strings.ToLower(prop)+".race.test")
		args = append(args, "-race")
	}
	_ = os.MkdirAll(filepath.Join(root, "bin"), 0o755)
	if alt := os.Getenv("VERIF_REPO"); alt != "" && alt != "/repo" {
		// sensitivity runs only: compile a scratch worktree instead of /repo
		mod, err := os.ReadFile(filepath.Join(root, "go.mod"))
		if err != nil {
			return "", err
		}
		tag := fmt.Sprintf("%x", sha256.Sum256([]byte(alt)))[:10]
		bin = strings.TrimSuffix(bin, ".test") + "." + tag + ".test"
		altMod := filepath.Join(root, "run", "alt-"+tag+".mod")
		_ = os.MkdirAll(filepath.Dir(altMod), 0o755)
		m := strings.Replace(string(mod), "=> /repo", "=> "+alt, 1)
		if err := os.WriteFile(altMod, []byte(m), 0o644); err != nil {
			return "", err
		}
		sum, _ := os.ReadFile(filepath.Join(root, "go.sum"))
		_ = os.WriteFile(strings.TrimSuffix(altMod, ".mod")+".sum", sum, 0o644)
		args = append(args, "-modfile="+altMod)
		os.Setenv("VERIF_MODFILE", altMod) // for checks that build further binaries themselves (C36)
	}
	args = append(args, "-o", bin, plan.Pkg)
	cmd := exec.Command("go", args...)
	cmd.Dir = root
	cmd.Env = goEnv()
	out, err := cmd.CombinedOutput()
	if err != nil {
		return "", fmt.Errorf("go %s: %v\n%s", strings.Join(args, " "), err, out)
	}
	return bin, nil
}

type shardResult struct {
	step, shard int
	name        string
	exit        int
	timedOut    bool
	log         string
	dur         time.Duration
}

func run(prop string, plan Plan, tier string) int {
	start := time.Now()
	runDir := filepath.Join(root, "run", prop, tier)
	if alt := os.Getenv("VERIF_REPO"); alt != "" && alt != "/repo" {
		runDir = filepath.Join(root, "run", prop, tier+"-"+fmt.Sprintf("%x", sha256.Sum256([]byte(alt)))[:10])
	}
	_ = os.RemoveAll(runDir)
	partDir := filepath.Join(runDir, "parts")
	repDir := filepath.Join(runDir, "replays")
	jrnDir := filepath.Join(runDir, "journal")
	for _, d := range []string{partDir, repDir, jrnDir} {
		if err := os.MkdirAll(d, 0o755); err != nil {
			die(2, "mkdir: %v", err)
		}
	}
	evPath := filepath.Join(root, "evidence", prop+".json")
	altRepo := os.Getenv("VERIF_REPO") != "" && os.Getenv("VERIF_REPO") != "/repo"
	if altRepo {
		// sensitivity runs against a scratch worktree must not overwrite the
		// evidence of the real tree
		evPath = filepath.Join(runDir, "evidence-alt.json")
	}
	_ = os.MkdirAll(filepath.Dir(evPath), 0o755)

	bins := map[bool]string{}
	for _, st := range plan.Steps {
		if !st.enabled(tier) {
			continue
		}
		if st.Kind == "fuzz" {
			continue
		}
		if _, ok := bins[st.Race]; !ok {
			b, err := build(prop, plan, st.Race)
			if err != nil {
				fmt.Fprintln(os.Stderr, err)
				die(2, "build failed (infrastructure, not a violation)")
			}
			bins[st.Race] = b
		}
	}

	sd := seed()
	var results []shardResult
	var mu sync.Mutex
	for si, st := range plan.Steps {
		if !st.enabled(tier) {
			continue
		}
		if st.Kind == "fuzz" {
			r := runFuzz(prop, plan, st, si, tier, runDir, partDir, repDir)
			results = append(results, r)
			continue
		}
		shards := st.shards(tier)
		checks := st.checks(tier)
		per := checks
		if shards > 1 && checks > 0 && !st.FullChecks {
			per = (checks + shards - 1) / shards
		}
		var wg sync.WaitGroup
		for sh := 0; sh < shards; sh++ {
			wg.Add(1)
			go func(sh int) {
				defer wg.Done()
				cwd := filepath.Join(runDir, fmt.Sprintf("cwd-%d-%d", si, sh))
				_ = os.MkdirAll(cwd, 0o755)
				args := []string{"-test.run", "^" + st.Run + "$", "-test.v", "-test.count=1", "-test.timeout", "0"}
				if st.Kind == "" || st.Kind == "rapid" {
					args = append(args, fmt.Sprintf("-rapid.checks=%d", per), fmt.Sprintf("-rapid.seed=%d", rapidSeed(sd, si, sh)), "-rapid.shrinktime=20s")
				}
				if st.Parallel > 0 {
					args = append(args, fmt.Sprintf("-test.parallel=%d", st.Parallel))
				}
				ctx, cancel := context.WithTimeout(context.Background(), st.timeout(tier))
				defer cancel()
				cmd := exec.CommandContext(ctx, bins[st.Race], args...)
				cmd.Dir = cwd
				cmd.SysProcAttr = &syscall.SysProcAttr{Setpgid: true}
				cmd.Cancel = func() error { return syscall.Kill(-cmd.Process.Pid, syscall.SIGKILL) }
				cmd.Env = append(goEnv(),
					"VERIF_TIER="+tier, fmt.Sprintf("VERIF_SEED=%d", sd),
					fmt.Sprintf("VERIF_SHARD=%d", sh), fmt.Sprintf("VERIF_SHARDS=%d", shards),
					"VERIF_PART_DIR="+partDir, "VERIF_REPLAY_DIR="+repDir, "VERIF_JOURNAL_DIR="+jrnDir,
					fmt.Sprintf("VERIF_CHECKS=%d", per), fmt.Sprintf("VERIF_RSEED=%d", rapidSeed(sd, si, sh)),
					"GOTRACEBACK=all")
				if st.MemMB > 0 {
					cmd.Env = append(cmd.Env, fmt.Sprintf("VERIF_AS_LIMIT_MB=%d", st.MemMB))
				}
				for _, e := range st.Env {
					cmd.Env = append(cmd.Env, e)
				}
				logPath := filepath.Join(runDir, fmt.Sprintf("log-%d-%d.txt", si, sh))
				lf, _ := os.Create(logPath)
				cmd.Stdout = lf
				cmd.Stderr = lf
				t0 := time.Now()
				err := cmd.Run()
				lf.Close()
				r := shardResult{step: si, shard: sh, name: st.Run, log: logPath, dur: time.Since(t0)}
				if ctx.Err() == context.DeadlineExceeded {
					r.timedOut = true
					r.exit = -1
				} else if err != nil {
					r.exit = 1
					if ee, ok := err.(*exec.ExitError); ok {
						r.exit = ee.ExitCode()
						if r.exit == 0 {
							r.exit = 1
						}
					}
				}
				// attach rapid's fail file (if any) to the replay of this shard
				attachFailFile(cwd, repDir, prop, sh)
				mu.Lock()
				results = append(results, r)
				mu.Unlock()
			}(sh)
		}
		wg.Wait()
	}

	// ---- judge
	infra := false
	var violations []string
	persistDir := filepath.Join(root, "replays", prop)
	if os.Getenv("VERIF_REPO") != "" && os.Getenv("VERIF_REPO") != "/repo" {
		persistDir = filepath.Join(root, "replays", "alt", prop)
	}
	shown := 0
	for _, r := range results {
		if r.exit == 0 {
			continue
		}
		if shown++; shown > 3 {
			fmt.Fprintf(os.Stderr, "step %s shard %d exit %d (log %s)\n", r.name, r.shard, r.exit, r.log)
			continue
		}
		tail := tailFile(r.log, 25)
		if r.timedOut {
			fmt.Fprintf(os.Stderr, "step %s shard %d exceeded its wall-clock guard (inconclusive, not a violation)\n%s\n", r.name, r.shard, tail)
			infra = true
			continue
		}
		fmt.Fprintf(os.Stderr, "---- step %s shard %d exit %d ----\n%s\n", r.name, r.shard, r.exit, tail)
	}
	// replays written by the properties
	reps, _ := filepath.Glob(filepath.Join(repDir, "*.json"))
	// journals left behind by a process that died
	jrns, _ := filepath.Glob(filepath.Join(jrnDir, "*.journal.json"))
	anyFail := false
	for _, r := range results {
		if r.exit != 0 && !r.timedOut {
			anyFail = true
		}
	}
	if anyFail && len(reps) == 0 {
		for _, j := range jrns {
			dst := filepath.Join(repDir, strings.TrimSuffix(filepath.Base(j), ".journal.json")+"-crash.json")
			b, _ := os.ReadFile(j)
			if len(strings.TrimSpace(string(b))) == 0 {
				continue // the case had finished
			}
			_ = os.WriteFile(dst, b, 0o644)
			reps = append(reps, dst)
		}
	}
	if anyFail && len(reps) == 0 {
		fmt.Fprintln(os.Stderr, "a step failed without naming a failing case: treated as infrastructure failure")
		infra = true
	}
	// replay files of an earlier run with the same tier and seed are stale now
	if old, _ := filepath.Glob(filepath.Join(persistDir, fmt.Sprintf("%s-seed%d-*", tier, sd))); len(old) > 0 {
		for _, o := range old {
			_ = os.Remove(o)
		}
	}
	if anyFail {
		_ = os.MkdirAll(persistDir, 0o755)
		sort.Strings(reps)
		for _, rp := range reps {
			dst := filepath.Join(persistDir, fmt.Sprintf("%s-seed%d-%s", tier, sd, filepath.Base(rp)))
			b, _ := os.ReadFile(rp)
			_ = os.WriteFile(dst, b, 0o644)
			violations = append(violations, dst)
		}
	}

	ev, err := merge(prop, plan, tier, sd, partDir, time.Since(start), len(violations))
	if err != nil {
		fmt.Fprintf(os.Stderr, "evidence: %v\n", err)
		infra = true
	} else {
		b, _ := json.MarshalIndent(ev, "", " ")
		if err := os.WriteFile(evPath, b, 0o644); err != nil {
			fmt.Fprintf(os.Stderr, "evidence: %v\n", err)
			infra = true
		}
	}

	for _, f := range findings() {
		if f.Status == "open" && f.Property == prop {
			fmt.Printf("KNOWN-FINDING: property=%s %s [%s]\n", prop, f.What, f.ID)
		}
	}
	for _, v := range violations {
		fmt.Printf("VIOLATION property=%s replay=%s\n", prop, v)
	}
	if ev != nil {
		fmt.Printf("%s %s seed=%d: evaluations=%d distinct_nontrivial=%d violations=%d wall=%.1fs\n", prop, tier, sd,
			ev.Coverage["evaluations"], ev.Coverage["distinct_nontrivial"], len(violations), time.Since(start).Seconds())
	}
	if len(violations) > 0 {
		return 1
	}
	if infra {
		return 2
	}
	return 0
}

func attachFailFile(cwd, repDir, prop string, shard int) {
	var files []string
	_ = filepath.Walk(filepath.Join(cwd, "testdata", "rapid"), func(p string, info os.FileInfo, err error) error {
		if err == nil && !info.IsDir() && strings.HasSuffix(p, ".fail") {
			files = append(files, p)
		}
		return nil
	})
	if len(files) == 0 {
		return
	}
	sort.Strings(files)
	ff, err := os.ReadFile(files[len(files)-1])
	if err != nil {
		return
	}
	reps, _ := filepath.Glob(filepath.Join(repDir, fmt.Sprintf("%s-*-s%d.json", prop, shard)))
	for _, rp := range reps {
		b, err := os.ReadFile(rp)
		if err != nil {
			continue
		}
		var m map[string]json.RawMessage
		if json.Unmarshal(b, &m) != nil {
			continue
		}
		if _, ok := m["rapid_failfile"]; ok {
			continue
		}
		s, _ := json.Marshal(string(ff))
		m["rapid_failfile"] = s
		out, _ := json.MarshalIndent(m, "", " ")
		_ = os.WriteFile(rp, out, 0o644)
	}
}

func tailFile(path string, n int) string {
	f, err := os.Open(path)
	if err != nil {
		return ""
	}
	defer f.Close()
	var lines []string
	sc := bufio.NewScanner(f)
	sc.Buffer(make([]byte, 1<<20), 4<<20)
	for sc.Scan() {
		if strings.Contains(sc.Text(), "[rapid] draw") {
			continue
		}
		lines = append(lines, sc.Text())
		if len(lines) > 4*n {
			lines = lines[len(lines)-n:]
		}
	}
	if len(lines) > n {
		lines = lines[len(lines)-n:]
	}
	return strings.Join(lines, "\n")
}

// ---------------------------------------------------------------------------

func replay(prop string, plan Plan, file string) int {
	abs, err := filepath.Abs(file)
	if err != nil {
		die(2, "%v", err)
	}
	b, err := os.ReadFile(abs)
	if err != nil {
		die(2, "%v", err)
	}
	var rp struct {
		Test     string `json:"test"`
		FailFile string `json:"rapid_failfile"`
	}
	if err := json.Unmarshal(b, &rp); err != nil {
		die(2, "replay file: %v", err)
	}
	race := false
	var step *Step
	for i := range plan.Steps {
		if plan.Steps[i].Run == rp.Test || plan.Steps[i].ReplayRun == rp.Test {
			step = &plan.Steps[i]
			race = step.Race
		}
	}
	bin, err := build(prop, plan, race)
	if err != nil {
		fmt.Fprintln(os.Stderr, err)
		return 2
	}
	runDir := filepath.Join(root, "run", prop, "replay")
	_ = os.RemoveAll(runDir)
	_ = os.MkdirAll(runDir, 0o755)
	args := []string{"-test.v", "-test.count=1"}
	// structured replay first (bypasses rapid)
	args = append(args, "-test.run", "^TestReplay$")
	cmd := exec.Command(bin, args...)
	cmd.Dir = runDir
	cmd.Env = append(goEnv(), "VERIF_REPLAY="+abs, "VERIF_REPLAY_DIR="+filepath.Join(runDir, "replays"), "GOTRACEBACK=all")
	out, err := cmd.CombinedOutput()
	os.Stdout.Write(out)
	failed := err != nil
	if !failed && rp.FailFile != "" && !strings.Contains(string(out), "REPLAYED structured") {
		ff := filepath.Join(runDir, "case.fail")
		_ = os.WriteFile(ff, []byte(rp.FailFile), 0o644)
		args = []string{"-test.v", "-test.count=1", "-test.run", "^" + rp.Test + "$", "-rapid.failfile=" + ff, "-rapid.checks=1"}
		cmd = exec.Command(bin, args...)
		cmd.Dir = runDir
		cmd.Env = append(goEnv(), "VERIF_REPLAY_DIR="+filepath.Join(runDir, "replays"), "GOTRACEBACK=all")
		out, err = cmd.CombinedOutput()
		os.Stdout.Write(out)
		failed = err != nil
	}
	if failed {
		fmt.Printf("VIOLATION property=%s replay=%s\n", prop, abs)
		return 1
	}
	fmt.Printf("replay of %s: property held\n", abs)
	return 0
}

// ---------------------------------------------------------------------------

type finding struct{ Status, Property, ID, Sig, What string }

func findings() []finding {
	f, err := os.Open(filepath.Join(root, "KNOWN_FINDINGS.txt"))
	if err != nil {
		return nil
	}
	defer f.Close()
	var out []finding
	sc := bufio.NewScanner(f)
	sc.Buffer(make([]byte, 1<<20), 1<<20)
	for sc.Scan() {
		line := strings.TrimSpace(sc.Text())
		if !strings.HasPrefix(line, "open:") {
			continue
		}
		rest := strings.TrimSpace(strings.TrimPrefix(line, "open:"))
		head, what, _ := strings.Cut(rest, "::")
		fd := finding{Status: "open", What: strings.TrimSpace(what)}
		for _, tok := range strings.Fields(head) {
			k, v, _ := strings.Cut(tok, "=")
			switch k {
			case "property":
				fd.Property = v
			case "id":
				fd.ID = v
			case "sig":
				fd.Sig = v
			}
		}
		out = append(out, fd)
	}
	return out
}

// ---------------------------------------------------------------------------

type part struct {
	Property    string            `json:"property"`
	Rule        string            `json:"rule"`
	Evaluations int64             `json:"evaluations"`
	Nontrivial  []string          `json:"nontrivial_hashes"`
	Classes     map[string]int64  `json:"classes"`
	Excluded    map[string]int64  `json:"excluded"`
	Samples     []json.RawMessage `json:"samples"`
	Assumptions []string          `json:"assumptions"`
	Extra       map[string]any    `json:"extra"`
	Violations  int64             `json:"violations"`
	Exhaustive  bool              `json:"exhaustive"`
	Inconcl     int64             `json:"inconclusive"`
}

type evidence struct {
	PropertyID  string         `json:"property_id"`
	Tier        string         `json:"tier"`
	Seed        int64          `json:"seed"`
	Level       string         `json:"level"`
	Coverage    map[string]any `json:"coverage"`
	Assumptions []string       `json:"assumptions"`
	WallS       float64        `json:"wall_s"`
	Violations  int            `json:"violations"`
}

func merge(prop string, plan Plan, tier string, sd int64, partDir string, wall time.Duration, nviol int) (*evidence, error) {
	files, _ := filepath.Glob(filepath.Join(partDir, prop+"-*.part.json"))
	sort.Strings(files)
	ev := &evidence{PropertyID: prop, Tier: tier, Seed: sd, Level: plan.level(), Coverage: map[string]any{}, WallS: wall.Seconds(), Violations: nviol}
	var evals, inconcl int64
	distinct := map[string]struct{}{}
	classes := map[string]int64{}
	excluded := map[string]int64{}
	var samples []json.RawMessage
	rules := []string{}
	assume := []string{}
	extra := map[string]any{}
	exhaustive := len(files) > 0
	for _, f := range files {
		b, err := os.ReadFile(f)
		if err != nil {
			return nil, err
		}
		var p part
		if err := json.Unmarshal(b, &p); err != nil {
			return nil, fmt.Errorf("%s: %v", f, err)
		}
		evals += p.Evaluations
		inconcl += p.Inconcl
		for _, h := range p.Nontrivial {
			distinct[h] = struct{}{}
		}
		for k, v := range p.Classes {
			classes[k] += v
		}
		for k, v := range p.Excluded {
			excluded[k] += v
		}
		if len(samples) < 12 {
			for _, s := range p.Samples {
				if len(samples) < 12 {
					samples = append(samples, s)
				}
			}
		}
		for _, r := range strings.Split(p.Rule, " | ") {
			if r != "" && !contains(rules, r) {
				rules = append(rules, r)
			}
		}
		for _, a := range p.Assumptions {
			if !contains(assume, a) {
				assume = append(assume, a)
			}
		}
		for k, v := range p.Extra {
			if old, ok := extra[k]; ok {
				if of, ok1 := old.(float64); ok1 {
					if nf, ok2 := v.(float64); ok2 {
						extra[k] = of + nf
						continue
					}
				}
			}
			extra[k] = v
		}
		if !p.Exhaustive {
			exhaustive = false
		}
	}
	if len(files) == 0 {
		return nil, fmt.Errorf("no evidence parts were written")
	}
	ev.Coverage["evaluations"] = evals
	ev.Coverage["distinct_nontrivial"] = int64(len(distinct))
	ev.Coverage["rule"] = strings.Join(rules, " | ")
	if samples == nil {
		samples = []json.RawMessage{}
	}
	ev.Coverage["samples"] = samples
	ev.Coverage["classes"] = classes
	if len(excluded) > 0 {
		ev.Coverage["excluded_known_findings"] = excluded
	}
	if inconcl > 0 {
		ev.Coverage["inconclusive"] = inconcl
	}
	if exhaustive {
		ev.Coverage["exhaustive"] = true
	}
	for k, v := range extra {
		if _, ok := ev.Coverage[k]; !ok {
			ev.Coverage[k] = v
		}
	}
	ev.Coverage["processes"] = len(files)
	ev.Assumptions = assume
	return ev, nil
}

func contains(xs []string, s string) bool {
	for _, x := range xs {
		if x == s {
			return true
		}
	}
	return false
}

var _ = io.EOF
