package main

import "time"

func init() {
	plans["C26"] = Plan{Pkg: pkg("C26"), Steps: []Step{
		// the acknowledgement oracle (a pure function) against hand-written histories with known verdicts
		{Run: "TestJudgeSelfCheck", Kind: "test"},
		// the hand-minimised cases of testdata/replay/c26 (repaired defects), in every tier
		{Run: "TestSavedCases", Kind: "test", QTimeout: 10 * time.Minute, TTimeout: 10 * time.Minute},
		// (b) a history costs 0.1-2 s (reconnects, a rare 1 s back-off of the client), mostly waiting
		{Run: "TestAcks", Quick: 480, Thorough: 8000, QShards: 32, TShards: 32, QTimeout: 10 * time.Minute, TTimeout: 90 * time.Minute},
		// (a) a stack costs 3-8 s of real time (server start, baseline delivery, reconnects), one
		// case at a time per process; concurrency comes from the shard processes
		{Run: "TestSurvival", Quick: 64, Thorough: 800, QShards: 32, TShards: 32, QTimeout: 12 * time.Minute, TTimeout: 120 * time.Minute},
	}}
}
