package main

func init() {
	plans["C24"] = Plan{Pkg: pkg("C24"), Steps: []Step{
		{Run: "TestSelectEndpoint", Quick: 60000, Thorough: 4000000, QShards: 4, TShards: 16},
	}}
}
