package main

func init() {
	plans["C09"] = Plan{Pkg: pkg("C09"), Steps: []Step{
		// not a rapid test: every process enumerates its share (VERIF_SHARD) of the
		// policy x mode combinations, all truncation lengths each
		{Run: "TestTruncationExhaustive", Quick: 1, Thorough: 1, QShards: 10, TShards: 10, FullChecks: true},
		{Run: "TestTamperServer", Quick: 4000, Thorough: 60000, QShards: 16, TShards: 16},
		{Run: "TestTamperClient", Quick: 4000, Thorough: 60000, QShards: 16, TShards: 16},
	}}
}
