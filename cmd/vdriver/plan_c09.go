package main

func init() {
	// A case is a short, mostly sequential exchange over loopback; with the
	// default GOMAXPROCS (=cores) per process the 16 shards oversubscribe the
	// machine and spend most of their time in the scheduler.
	few := []string{"GOMAXPROCS=2"}
	plans["C09"] = Plan{Pkg: pkg("C09"), Steps: []Step{
		// not a rapid test: every process enumerates its share (VERIF_SHARD) of the
		// policy x mode combinations, all truncation lengths each
		{Run: "TestTruncationExhaustive", Quick: 1, Thorough: 1, QShards: 10, TShards: 10, FullChecks: true, Env: []string{"GOMAXPROCS=4"}},
		{Run: "TestTamperServer", Quick: 4000, Thorough: 40000, QShards: 16, TShards: 16, Env: few},
		{Run: "TestTamperClient", Quick: 4000, Thorough: 40000, QShards: 16, TShards: 16, Env: few},
	}}
}
