package main

import "time"

func init() {
	plans["C09"] = Plan{Pkg: pkg("C09"), Steps: []Step{
		{Run: "TestTruncationExhaustive", Kind: "test", QTimeout: 10 * time.Minute, TTimeout: 20 * time.Minute},
		{Run: "TestTamperServer", Quick: 1600, Thorough: 60000, QShards: 8, TShards: 16},
		{Run: "TestTamperClient", Quick: 1600, Thorough: 60000, QShards: 8, TShards: 16},
	}}
}
