package main

func init() {
	plans["C15"] = Plan{Pkg: pkg("C15"), Steps: []Step{
		// exhaustive over the fixtures: 5 policies x (7 sizes + not supplied)^2, no RSA operation
		{Run: "TestKeySizeLimits", Kind: "test"},
		// RSA private-key operations dominate (up to ~15 per case, ~7 ms each at 4096 bit): shard
		{Run: "TestAsymmetric", Quick: 6000, Thorough: 80000, QShards: 8, TShards: 16},
	}}
}
