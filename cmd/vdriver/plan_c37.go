package main

import "time"

func init() {
	plans["C37"] = Plan{Pkg: pkg("C37"), Steps: []Step{
		// one rapid check = one sweep over the configurations of the shard's server key sizes
		// (the test partitions by VERIF_SHARD: quick by policy, thorough by the 5 server key sizes)
		{Run: "TestInterop", Quick: 3, Thorough: 6, QShards: 6, TShards: 5, FullChecks: true, QTimeout: 10 * time.Minute, TTimeout: 60 * time.Minute},
	}}
}
