package main

func init() {
	few := []string{"GOMAXPROCS=2"} // see plan_c09.go
	plans["C10"] = Plan{Pkg: pkg("C10"), Steps: []Step{
		{Run: "TestReplayServer", Quick: 1600, Thorough: 40000, QShards: 16, TShards: 16, Env: few},
		{Run: "TestReplayClient", Quick: 1600, Thorough: 40000, QShards: 16, TShards: 16, Env: few},
	}}
}
