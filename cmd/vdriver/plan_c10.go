package main

func init() {
	plans["C10"] = Plan{Pkg: pkg("C10"), Steps: []Step{
		{Run: "TestReplayServer", Quick: 1200, Thorough: 40000, QShards: 12, TShards: 16},
		{Run: "TestReplayClient", Quick: 1200, Thorough: 40000, QShards: 12, TShards: 16},
	}}
}
