package main

import "time"

func init() {
	plans["C22"] = Plan{Pkg: pkg("C22"), Steps: []Step{
		// one case = one script server + one opcua.Client.Connect (RSA handshake with
		// the fixture keys): 20-80 ms each
		{Run: "TestSessionSignature", Quick: 2000, Thorough: 24000, QShards: 8, TShards: 16, QTimeout: 8 * time.Minute},
	}}
}
