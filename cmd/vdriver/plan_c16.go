package main

func init() {
	plans["C16"] = Plan{Pkg: pkg("C16"), Steps: []Step{
		{Run: "TestRenewalSchedule", Quick: 16, Thorough: 160, QShards: 8, TShards: 16},
		{Run: "TestRenewalWindows", Quick: 160, Thorough: 4000, QShards: 16, TShards: 16},
		{Run: "TestRequestsAcrossAutomaticRenewals", Quick: 16, Thorough: 480, QShards: 16, TShards: 16},
		// opcua.Client against server.Server across 3-4 automatic renewals (10-20 s per case)
		{Run: "TestClientAgainstServer", Quick: 8, Thorough: 128, QShards: 8, TShards: 16},
	}}
}
