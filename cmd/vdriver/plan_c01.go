package main

func init() {
	plans["C01"] = Plan{Pkg: pkg("C01"), Steps: []Step{
		{Run: "TestRoundTripTypes", Quick: 40, Thorough: 1500, QShards: 8, TShards: 16, FullChecks: true},
		{Run: "TestVariant", Quick: 8000, Thorough: 400000, QShards: 4, TShards: 16},
		{Run: "TestDataValue", Quick: 3000, Thorough: 100000, QShards: 2, TShards: 8},
		{Run: "TestDiagnosticInfo", Quick: 2000, Thorough: 50000, QShards: 1, TShards: 4},
		{Run: "TestNodeIDs", Quick: 4000, Thorough: 200000, QShards: 2, TShards: 8},
	}}
}
