package main

func init() {
	plans["C20"] = Plan{Pkg: pkg("C20"), Steps: []Step{
		{Run: "TestCloneIndependent", Kind: "test"},
		// 1-4 channel pairs x 3-12 (thorough 3-30) exchanges; ~60 ms per history
		{Run: "TestImmutable", Quick: 800, Thorough: 12000, QShards: 16, TShards: 16},
	}}
}
