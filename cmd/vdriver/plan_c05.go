package main

func init() {
	plans["C05"] = Plan{Pkg: pkg("C05"), Steps: []Step{
		{Run: "TestTinyBufferProbe", Kind: "test"},
		{Run: "TestFraming", Quick: 3200, Thorough: 80000, QShards: 8, TShards: 16},
	}}
}
