package main

func init() {
	plans["C23"] = Plan{Pkg: pkg("C23"), Steps: []Step{
		{Run: "TestOptionTable", Kind: "test"},
		{Run: "TestIsolation", Quick: 24000, Thorough: 400000, QShards: 8, TShards: 16},
	}}
}
