package main

func init() {
	plans["C23"] = Plan{Pkg: pkg("C23"), Steps: []Step{
		{Run: "TestOptionTable", Kind: "test"},
		{Run: "TestIsolation", Quick: 3000, Thorough: 200000, QShards: 4, TShards: 16},
	}}
}
