package main

func init() {
	plans["C03"] = Plan{Pkg: pkg("C03"), Steps: []Step{
		{Run: "TestReencode", Quick: 60000, Thorough: 3000000, QShards: 8, TShards: 16},
	}}
}
