package main

func init() {
	plans["C14"] = Plan{Pkg: pkg("C14"), Steps: []Step{
		// self-test of the reference (a failure is an infrastructure problem, not a violation)
		{Run: "TestReference", Kind: "test"},
		{Run: "TestSymmetric", Quick: 100000, Thorough: 4000000, QShards: 4, TShards: 16},
	}}
}
