package main

func init() {
	// the 16 shards run side by side; large chunks make the garbage collector the
	// main cost, which a small GOMAXPROCS per process keeps cheap
	env := []string{"GOMAXPROCS=2", "GOGC=300"}
	plans["C38"] = Plan{Pkg: pkg("C38"), Steps: []Step{
		// self-test of the arithmetic model (a failure is an infrastructure problem, not a violation)
		{Run: "TestModel", Kind: "test"},
		// enumeration of every chunk size in [8192,12288) and 2^k+-2; the test partitions the domain by VERIF_SHARD
		{Run: "TestResidues", Quick: 1, Thorough: 1, QShards: 16, TShards: 16, FullChecks: true, Env: env},
		{Run: "TestGenerated", Quick: 24000, Thorough: 300000, QShards: 16, TShards: 16, Env: env},
		// real channel pairs: which chunk size reaches SetMaximumBodySize (first token and renewals)
		{Run: "TestWiring", Quick: 480, Thorough: 8000, QShards: 8, TShards: 16},
	}}
}
