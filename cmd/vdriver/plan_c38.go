package main

func init() {
	plans["C38"] = Plan{Pkg: pkg("C38"), Steps: []Step{
		// self-test of the arithmetic model (a failure is an infrastructure problem, not a violation)
		{Run: "TestModel", Kind: "test"},
		// enumeration of every chunk size in [8192,12288) and 2^k+-2; the test partitions the domain by VERIF_SHARD
		{Run: "TestResidues", Quick: 1, Thorough: 1, QShards: 16, TShards: 16, FullChecks: true},
		{Run: "TestGenerated", Quick: 40000, Thorough: 1000000, QShards: 16, TShards: 16},
	}}
}
