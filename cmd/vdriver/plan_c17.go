package main

func init() {
	// every rapid check executes a batch of 12 (quick) / 16 (thorough) cases
	// concurrently; a case costs a few token lifetimes of real time (2-7 s)
	plans["C17"] = Plan{Pkg: pkg("C17"), Steps: []Step{
		{Run: "TestExpiredToken", Quick: 24, Thorough: 256, QShards: 8, TShards: 16},
	}}
}
