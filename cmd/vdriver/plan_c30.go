package main

import "time"

func init() {
	plans["C30"] = Plan{Pkg: pkg("C30"), Steps: []Step{
		// the tests partition their configuration lists by VERIF_SHARD (FullChecks)
		{Run: "TestFamilies", Quick: 1, Thorough: 1, QShards: 11, TShards: 11, FullChecks: true, QTimeout: 8 * time.Minute, TTimeout: 20 * time.Minute},
		{Run: "TestAllSubsets", Quick: 0, Thorough: 1, TShards: 16, FullChecks: true, TTimeout: 90 * time.Minute},
		{Run: "TestRandomSubsets", Quick: 8, Thorough: 0, QShards: 8, QTimeout: 8 * time.Minute},
	}}
}
