package main

import "time"

func init() {
	plans["C27"] = Plan{Pkg: pkg("C27"), Steps: []Step{
		// a script costs real time (withheld publishes, request timeouts): ~1-3 s per case,
		// one case at a time per process (goroutine dumps are process-wide); concurrency
		// comes from the shard processes, which mostly sleep
		// the hand-minimised cases of testdata/replay/c27 (modes of the repaired signalling defect), in every tier
		{Run: "TestSavedCases", Kind: "test", QTimeout: 10 * time.Minute, TTimeout: 10 * time.Minute},
		{Run: "TestDeadlock", Quick: 640, Thorough: 9600, QShards: 32, TShards: 32, QTimeout: 12 * time.Minute, TTimeout: 90 * time.Minute},
	}}
}
