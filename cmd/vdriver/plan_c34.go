package main

func init() {
	plans["C34"] = Plan{Pkg: pkg("C34"), Steps: []Step{
		{Run: "TestLinearizable", Quick: 1600, Thorough: 32000, QShards: 8, TShards: 16},
	}}
}
