package main

func init() {
	plans["C12"] = Plan{Pkg: pkg("C12"), Steps: []Step{
		// reference sender (policy None) -> gopcua server / client channel; ~15 ms per stream
		{Run: "TestReassembly", Quick: 2400, Thorough: 60000, QShards: 16, TShards: 16},
		// genuine gopcua sender under Basic256Sha256 steered across the wrap; ~30 ms per case (RSA handshake)
		{Run: "TestSteered", Quick: 480, Thorough: 8000, QShards: 16, TShards: 16},
	}}
}
