package main

func init() {
	plans["C08"] = Plan{Pkg: pkg("C08"), Steps: []Step{
		// self-test of the reference codec (a failure is an infrastructure problem, not a violation)
		{Run: "TestReference", Kind: "test"},
		// symmetric MSG chunks from signAndEncrypt on drawn nonces (no RSA): cheap and broad
		{Run: "TestKeyedChunks", Quick: 16000, Thorough: 800000, QShards: 8, TShards: 16},
		// the three channel forms each cost one RSA handshake per case (up to ~15 private
		// key operations incl. the reference's; ~7 ms each at 4096 bit): shard
		{Run: "TestWire", Quick: 320, Thorough: 12000, QShards: 16, TShards: 16},
		{Run: "TestRefClient", Quick: 320, Thorough: 12000, QShards: 16, TShards: 16},
		{Run: "TestRefServer", Quick: 320, Thorough: 12000, QShards: 16, TShards: 16},
	}}
}
