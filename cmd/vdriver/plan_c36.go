package main

import "time"

func init() {
	plans["C36"] = Plan{Pkg: pkg("C36"), Steps: []Step{
		{Run: "TestRaces", Kind: "test", QShards: 4, TShards: 8, QTimeout: 30 * time.Minute, TTimeout: 120 * time.Minute},
	}}
}
