package refcodec

import (
	"crypto/rand"
	"crypto/rsa"
	"fmt"
	"io"
	"net"
	"time"

	"github.com/gopcua/opcua/ua"
)

// Role says which end of the conversation a Session plays.
type Role int

const (
	Client Role = iota
	Server
)

// Session is one end of a secure conversation over a byte stream, played by the
// reference: as a client it sends HEL, builds the OPN request, parses the OPN
// response and then exchanges MSG / CLO chunks; as a server it answers HEL with
// ACK, parses the OPN request and builds the OPN response. Nothing happens
// behind the caller's back: sequence numbers and request ids are always passed
// in, every received chunk is returned with all of its fields.
//
// A Session is not safe for concurrent use.
type Session struct {
	Conn net.Conn
	Role Role

	// CreatedAtSkew (server role) is added to the CreatedAt of the tokens this
	// end issues: a server whose clock differs from the client's.
	CreatedAtSkew time.Duration

	// Policy and Mode of the channel. A client sets both before OpenRequest; a
	// server learns them from the OPN request (ReadOpenRequest).
	Policy *Policy
	Mode   Mode

	// LocalKey / LocalCert are this end's application instance key and
	// certificate (DER; what is sent as SenderCertificate, leaf or chain).
	// RemoteCert is the peer's certificate: configured on a client, learned from
	// the OPN request on a server.
	LocalKey   *rsa.PrivateKey
	LocalCert  []byte
	RemoteCert []byte

	// Channel state, filled by the OPN exchange.
	ChannelID   uint32
	TokenID     uint32
	ClientNonce []byte
	ServerNonce []byte
	ClientKeys  *Keys // keys securing client -> server chunks
	ServerKeys  *Keys // keys securing server -> client chunks

	// MaxFrame bounds the frames ReadChunk accepts (0 = 16 MiB).
	MaxFrame int
	// Timeout is the read / write deadline applied per frame (0 = 10 s).
	Timeout time.Duration
	// Rand supplies the randomness of the RSA schemes (default crypto/rand).
	Rand io.Reader
	// AsymOptions are applied to the OPN chunk this end builds, SymOptions to
	// the MSG / CLO chunks.
	AsymOptions AsymOptions
	SymOptions  SymOptions
}

// NewClientSession returns a client end. serverCert may be nil for policy None.
func NewClientSession(conn net.Conn, p *Policy, mode Mode, key *rsa.PrivateKey, cert, serverCert []byte) *Session {
	return &Session{Conn: conn, Role: Client, Policy: p, Mode: mode, LocalKey: key, LocalCert: cert, RemoteCert: serverCert}
}

// NewServerSession returns a server end with the given channel and token id.
func NewServerSession(conn net.Conn, key *rsa.PrivateKey, cert []byte, channelID, tokenID uint32) *Session {
	return &Session{Conn: conn, Role: Server, LocalKey: key, LocalCert: cert, ChannelID: channelID, TokenID: tokenID}
}

func (s *Session) deadline() time.Time {
	d := s.Timeout
	if d == 0 {
		d = 10 * time.Second
	}
	return time.Now().Add(d)
}

// WriteFrame writes raw bytes (one or more frames) to the connection.
func (s *Session) WriteFrame(b []byte) error {
	s.Conn.SetWriteDeadline(s.deadline())
	_, err := s.Conn.Write(b)
	return err
}

// ReadFrame reads the next UACP frame.
func (s *Session) ReadFrame() ([]byte, error) {
	s.Conn.SetReadDeadline(s.deadline())
	return ReadFrame(s.Conn, s.MaxFrame)
}

// Hello sends HEL and returns the server's ACK (client).
func (s *Session) Hello(h Hello) (Acknowledge, error) {
	if err := s.WriteFrame(BuildHello(h)); err != nil {
		return Acknowledge{}, err
	}
	f, err := s.ReadFrame()
	if err != nil {
		return Acknowledge{}, err
	}
	return ParseAcknowledge(f)
}

// AcceptHello reads HEL and answers with the given ACK (server).
func (s *Session) AcceptHello(a Acknowledge) (Hello, error) {
	f, err := s.ReadFrame()
	if err != nil {
		return Hello{}, err
	}
	h, err := ParseHello(f)
	if err != nil {
		return h, err
	}
	return h, s.WriteFrame(BuildAcknowledge(a))
}

// EncodeService encodes a service body: the type id as a four byte
// ExpandedNodeId followed by the structure (gopcua's ua codec).
func EncodeService(svc any) ([]byte, error) {
	id := ua.ServiceTypeID(svc)
	if id == 0 {
		return nil, fmt.Errorf("refcodec: %T is not a registered service", svc)
	}
	a, err := ua.Encode(ua.NewFourByteExpandedNodeID(0, id))
	if err != nil {
		return nil, err
	}
	b, err := ua.Encode(svc)
	if err != nil {
		return nil, err
	}
	return append(a, b...), nil
}

// DecodeService decodes a service body (type id + structure).
func DecodeService(b []byte) (any, error) {
	_, svc, err := ua.DecodeService(b)
	return svc, err
}

func (s *Session) rnd() io.Reader {
	if s.Rand != nil {
		return s.Rand
	}
	return rand.Reader
}

func (s *Session) asymOpts() AsymOptions {
	o := s.AsymOptions
	if o.Rand == nil {
		o.Rand = s.rnd()
	}
	return o
}

// NewRequestHeader returns a request header with every pointer field set.
func NewRequestHeader(handle uint32) *ua.RequestHeader {
	return &ua.RequestHeader{
		AuthenticationToken: ua.NewTwoByteNodeID(0),
		Timestamp:           time.Unix(1700000000, 0).UTC(),
		RequestHandle:       handle,
		TimeoutHint:         10000,
		AdditionalHeader:    ua.NewExtensionObject(nil),
	}
}

// NewResponseHeader returns a response header with every pointer field set.
func NewResponseHeader(handle uint32) *ua.ResponseHeader {
	return &ua.ResponseHeader{
		Timestamp:          time.Unix(1700000000, 0).UTC(),
		RequestHandle:      handle,
		ServiceDiagnostics: &ua.DiagnosticInfo{},
		StringTable:        []string{},
		AdditionalHeader:   ua.NewExtensionObject(nil),
	}
}

// OpenRequest builds and sends the OPN request (client): an
// OpenSecureChannelRequest (Issue) with the given nonce and lifetime, secured
// for the server certificate. channelID is the SecureChannelId of the header
// (0 when issuing). The frame sent is returned.
func (s *Session) OpenRequest(requestID, seq uint32, renew bool, clientNonce []byte, lifetimeMS uint32) ([]byte, error) {
	rt := ua.SecurityTokenRequestTypeIssue
	if renew {
		rt = ua.SecurityTokenRequestTypeRenew
	}
	req := &ua.OpenSecureChannelRequest{
		RequestHeader:     NewRequestHeader(requestID),
		RequestType:       rt,
		SecurityMode:      ua.MessageSecurityMode(s.Mode),
		ClientNonce:       clientNonce,
		RequestedLifetime: lifetimeMS,
	}
	body, err := EncodeService(req)
	if err != nil {
		return nil, err
	}
	h := AsymHeader{ChunkType: 'F', SecureChannelID: s.ChannelID, SequenceNumber: seq, RequestID: requestID,
		SenderCert: s.LocalCert, SenderKey: s.LocalKey, ReceiverCert: s.RemoteCert}
	f, err := BuildAsymChunk(s.Policy, h, body, s.asymOpts())
	if err != nil {
		return nil, err
	}
	s.ClientNonce = clientNonce
	return f, s.WriteFrame(f)
}

// ReadOpenResponse reads and verifies the OPN response (client), adopts channel
// id, token id and server nonce and derives the symmetric keys.
func (s *Session) ReadOpenResponse() (*ua.OpenSecureChannelResponse, *Chunk, error) {
	f, err := s.ReadFrame()
	if err != nil {
		return nil, nil, err
	}
	if FrameType(f) == "ERR" {
		return nil, nil, ParseError(f)
	}
	c, err := ParseAsymChunk(f, AsymParse{ReceiverKey: s.LocalKey, ReceiverCert: s.LocalCert})
	if err != nil {
		return nil, c, err
	}
	if c.PolicyURI != s.Policy.URI {
		return nil, c, bad("policy", "OPN response uses %q, the request used %q", c.PolicyURI, s.Policy.URI)
	}
	svc, err := DecodeService(c.Body)
	if err != nil {
		return nil, c, err
	}
	resp, ok := svc.(*ua.OpenSecureChannelResponse)
	if !ok {
		return nil, c, fmt.Errorf("refcodec: OPN response carries %T", svc)
	}
	if resp.SecurityToken == nil {
		return resp, c, fmt.Errorf("refcodec: OPN response without security token")
	}
	s.ChannelID = resp.SecurityToken.ChannelID
	s.TokenID = resp.SecurityToken.TokenID
	s.ServerNonce = resp.ServerNonce
	s.ClientKeys, s.ServerKeys = DeriveKeys(s.Policy, s.ClientNonce, s.ServerNonce)
	return resp, c, nil
}

// ReadOpenRequest reads and verifies the OPN request (server), adopts policy,
// mode, client certificate and client nonce.
func (s *Session) ReadOpenRequest() (*ua.OpenSecureChannelRequest, *Chunk, error) {
	f, err := s.ReadFrame()
	if err != nil {
		return nil, nil, err
	}
	c, err := ParseAsymChunk(f, AsymParse{ReceiverKey: s.LocalKey, ReceiverCert: s.LocalCert})
	if err != nil {
		return nil, c, err
	}
	s.Policy = PolicyByURI(c.PolicyURI)
	s.RemoteCert = c.SenderCertificate
	svc, err := DecodeService(c.Body)
	if err != nil {
		return nil, c, err
	}
	req, ok := svc.(*ua.OpenSecureChannelRequest)
	if !ok {
		return nil, c, fmt.Errorf("refcodec: OPN request carries %T", svc)
	}
	s.Mode = Mode(req.SecurityMode)
	s.ClientNonce = req.ClientNonce
	return req, c, nil
}

// OpenResponse builds and sends the OPN response (server) with the session's
// channel and token id and the given nonce, then derives the symmetric keys.
func (s *Session) OpenResponse(requestID, seq uint32, handle uint32, serverNonce []byte, lifetimeMS uint32) ([]byte, error) {
	resp := &ua.OpenSecureChannelResponse{
		ResponseHeader: NewResponseHeader(handle),
		SecurityToken: &ua.ChannelSecurityToken{ChannelID: s.ChannelID, TokenID: s.TokenID,
			CreatedAt: time.Now().UTC().Add(s.CreatedAtSkew), RevisedLifetime: lifetimeMS},
		ServerNonce: serverNonce,
	}
	body, err := EncodeService(resp)
	if err != nil {
		return nil, err
	}
	h := AsymHeader{ChunkType: 'F', SecureChannelID: s.ChannelID, SequenceNumber: seq, RequestID: requestID,
		SenderCert: s.LocalCert, SenderKey: s.LocalKey, ReceiverCert: s.RemoteCert}
	f, err := BuildAsymChunk(s.Policy, h, body, s.asymOpts())
	if err != nil {
		return nil, err
	}
	s.ServerNonce = serverNonce
	s.ClientKeys, s.ServerKeys = DeriveKeys(s.Policy, s.ClientNonce, s.ServerNonce)
	return f, s.WriteFrame(f)
}

// SendKeys are the keys this end secures its chunks with, RecvKeys the peer's.
func (s *Session) SendKeys() *Keys {
	if s.Role == Client {
		return s.ClientKeys
	}
	return s.ServerKeys
}

// RecvKeys are the keys the peer secures its chunks with.
func (s *Session) RecvKeys() *Keys {
	if s.Role == Client {
		return s.ServerKeys
	}
	return s.ClientKeys
}

// SendMSG builds and sends one symmetric chunk ("MSG" or "CLO") and returns the
// frame.
func (s *Session) SendMSG(msgType string, requestID, seq uint32, chunkType byte, body []byte) ([]byte, error) {
	h := SymHeader{MessageType: msgType, ChunkType: chunkType, SecureChannelID: s.ChannelID, TokenID: s.TokenID, SequenceNumber: seq, RequestID: requestID}
	f, err := BuildSymChunk(s.Policy, s.Mode, s.SendKeys(), h, body, s.SymOptions)
	if err != nil {
		return nil, err
	}
	return f, s.WriteFrame(f)
}

// SendMessage sends body as a MSG message split into chunks: sizes gives the
// body length of every chunk but the last (which takes the rest, possibly 0
// bytes). Sequence numbers count up from firstSeq. Returns the frames.
func (s *Session) SendMessage(requestID, firstSeq uint32, body []byte, sizes []int) ([][]byte, error) {
	var frames [][]byte
	seq := firstSeq
	for _, n := range sizes {
		if n > len(body) {
			n = len(body)
		}
		f, err := s.SendMSG("MSG", requestID, seq, 'C', body[:n])
		if err != nil {
			return frames, err
		}
		frames = append(frames, f)
		body = body[n:]
		seq++
	}
	f, err := s.SendMSG("MSG", requestID, seq, 'F', body)
	if err != nil {
		return frames, err
	}
	return append(frames, f), nil
}

// ParseChunk parses a received frame: OPN with this end's private key, MSG and
// CLO with the peer's sending keys.
func (s *Session) ParseChunk(f []byte) (*Chunk, error) {
	switch FrameType(f) {
	case "ERR":
		return nil, ParseError(f)
	case "OPN":
		return ParseAsymChunk(f, AsymParse{ReceiverKey: s.LocalKey, ReceiverCert: s.LocalCert})
	case "MSG", "CLO":
		if s.Policy == nil {
			return nil, bad("state", "%s before the channel was opened", FrameType(f))
		}
		return ParseSymChunk(f, s.Policy, s.Mode, s.RecvKeys())
	}
	return nil, bad("header", "unexpected frame type %q", FrameType(f))
}

// ReadChunk reads and verifies the next chunk.
func (s *Session) ReadChunk() (*Chunk, error) {
	f, err := s.ReadFrame()
	if err != nil {
		return nil, err
	}
	return s.ParseChunk(f)
}

// Message is a reassembled MSG message.
type Message struct {
	RequestID uint32
	Chunks    []*Chunk
	Body      []byte // concatenated chunk bodies
	Service   any    // decoded service (nil if Body does not decode)
}

// ReadMessage reads chunks up to and including the next final chunk. All
// chunks must carry the same request id, intermediate ones type 'C'.
func (s *Session) ReadMessage() (*Message, error) {
	m := &Message{}
	for {
		c, err := s.ReadChunk()
		if err != nil {
			return m, err
		}
		if len(m.Chunks) == 0 {
			m.RequestID = c.RequestID
		} else if c.RequestID != m.RequestID {
			return m, bad("request-id", "chunk %d carries request id %d, the first carried %d", len(m.Chunks), c.RequestID, m.RequestID)
		}
		m.Chunks = append(m.Chunks, c)
		m.Body = append(m.Body, c.Body...)
		switch c.ChunkType {
		case 'C':
			continue
		case 'A':
			return m, bad("abort", "peer aborted the message: % x", c.Body)
		}
		m.Service, _ = DecodeService(m.Body)
		return m, nil
	}
}
