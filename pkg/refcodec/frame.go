package refcodec

import (
	"encoding/binary"
	"fmt"
	"io"
)

// UACP (Part 6 §7.1): every message starts with MessageType (3 bytes), one
// reserved / chunk type byte and MessageSize (u32, little endian, including the
// 8 header bytes).

// FrameHeaderLen is the length of the UACP message header.
const FrameHeaderLen = 8

// ReadFrame reads one UACP frame (header included). max bounds MessageSize
// (0 = 16 MiB).
func ReadFrame(r io.Reader, max int) ([]byte, error) {
	if max <= 0 {
		max = 16 << 20
	}
	var hdr [FrameHeaderLen]byte
	if _, err := io.ReadFull(r, hdr[:]); err != nil {
		return nil, err
	}
	size := int(binary.LittleEndian.Uint32(hdr[4:]))
	if size < FrameHeaderLen {
		return nil, bad("frame-size", "MessageSize %d is smaller than the header", size)
	}
	if size > max {
		return nil, bad("frame-size", "MessageSize %d exceeds the limit %d", size, max)
	}
	b := make([]byte, size)
	copy(b, hdr[:])
	if _, err := io.ReadFull(r, b[FrameHeaderLen:]); err != nil {
		return nil, err
	}
	return b, nil
}

// FrameType returns the 3-letter message type of a frame ("" if too short).
func FrameType(b []byte) string {
	if len(b) < 4 {
		return ""
	}
	return string(b[:3])
}

func frame(typ string, body []byte) []byte {
	b := make([]byte, FrameHeaderLen+len(body))
	copy(b, typ) // 4 characters, e.g. "HELF"
	binary.LittleEndian.PutUint32(b[4:], uint32(len(b)))
	copy(b[FrameHeaderLen:], body)
	return b
}

// Hello is the UACP Hello message body (§7.1.2.3).
type Hello struct {
	ProtocolVersion   uint32
	ReceiveBufferSize uint32
	SendBufferSize    uint32
	MaxMessageSize    uint32
	MaxChunkCount     uint32
	EndpointURL       string
}

// Acknowledge is the UACP Acknowledge message body (§7.1.2.4).
type Acknowledge struct {
	ProtocolVersion   uint32
	ReceiveBufferSize uint32
	SendBufferSize    uint32
	MaxMessageSize    uint32
	MaxChunkCount     uint32
}

// UACPError is the UACP Error message body (§7.1.2.5).
type UACPError struct {
	Code   uint32
	Reason string
}

func (e *UACPError) Error() string { return fmt.Sprintf("peer sent ERR 0x%08X %q", e.Code, e.Reason) }

// BuildHello encodes a HEL frame.
func BuildHello(h Hello) []byte {
	b := make([]byte, 20, 24+len(h.EndpointURL))
	binary.LittleEndian.PutUint32(b[0:], h.ProtocolVersion)
	binary.LittleEndian.PutUint32(b[4:], h.ReceiveBufferSize)
	binary.LittleEndian.PutUint32(b[8:], h.SendBufferSize)
	binary.LittleEndian.PutUint32(b[12:], h.MaxMessageSize)
	binary.LittleEndian.PutUint32(b[16:], h.MaxChunkCount)
	b = appendString(b, []byte(h.EndpointURL), false)
	return frame("HELF", b)
}

// ParseHello decodes a HEL frame.
func ParseHello(f []byte) (Hello, error) {
	var h Hello
	if FrameType(f) != "HEL" || len(f) < FrameHeaderLen+24 {
		return h, bad("hello", "not a HEL frame (%d bytes, type %q)", len(f), FrameType(f))
	}
	b := f[FrameHeaderLen:]
	h.ProtocolVersion = binary.LittleEndian.Uint32(b[0:])
	h.ReceiveBufferSize = binary.LittleEndian.Uint32(b[4:])
	h.SendBufferSize = binary.LittleEndian.Uint32(b[8:])
	h.MaxMessageSize = binary.LittleEndian.Uint32(b[12:])
	h.MaxChunkCount = binary.LittleEndian.Uint32(b[16:])
	s, _, _, err := readString(b[20:])
	if err != nil {
		return h, err
	}
	h.EndpointURL = string(s)
	return h, nil
}

// BuildAcknowledge encodes an ACK frame.
func BuildAcknowledge(a Acknowledge) []byte {
	b := make([]byte, 20)
	binary.LittleEndian.PutUint32(b[0:], a.ProtocolVersion)
	binary.LittleEndian.PutUint32(b[4:], a.ReceiveBufferSize)
	binary.LittleEndian.PutUint32(b[8:], a.SendBufferSize)
	binary.LittleEndian.PutUint32(b[12:], a.MaxMessageSize)
	binary.LittleEndian.PutUint32(b[16:], a.MaxChunkCount)
	return frame("ACKF", b)
}

// ParseAcknowledge decodes an ACK frame; an ERR frame is returned as *UACPError.
func ParseAcknowledge(f []byte) (Acknowledge, error) {
	var a Acknowledge
	if FrameType(f) == "ERR" {
		return a, ParseError(f)
	}
	if FrameType(f) != "ACK" || len(f) < FrameHeaderLen+20 {
		return a, bad("acknowledge", "not an ACK frame (%d bytes, type %q)", len(f), FrameType(f))
	}
	b := f[FrameHeaderLen:]
	a.ProtocolVersion = binary.LittleEndian.Uint32(b[0:])
	a.ReceiveBufferSize = binary.LittleEndian.Uint32(b[4:])
	a.SendBufferSize = binary.LittleEndian.Uint32(b[8:])
	a.MaxMessageSize = binary.LittleEndian.Uint32(b[12:])
	a.MaxChunkCount = binary.LittleEndian.Uint32(b[16:])
	return a, nil
}

// ParseError decodes an ERR frame into a *UACPError.
func ParseError(f []byte) error {
	if FrameType(f) != "ERR" || len(f) < FrameHeaderLen+4 {
		return bad("error-frame", "not an ERR frame")
	}
	e := &UACPError{Code: binary.LittleEndian.Uint32(f[FrameHeaderLen:])}
	if s, _, _, err := readString(f[FrameHeaderLen+4:]); err == nil {
		e.Reason = string(s)
	}
	return e
}

// appendString appends a UA String / ByteString (i32 length, -1 = null).
func appendString(b, s []byte, null bool) []byte {
	var l [4]byte
	if null {
		binary.LittleEndian.PutUint32(l[:], 0xFFFFFFFF)
		return append(b, l[:]...)
	}
	binary.LittleEndian.PutUint32(l[:], uint32(len(s)))
	b = append(b, l[:]...)
	return append(b, s...)
}

// readString reads a UA String / ByteString; returns the value, whether it was
// null and the number of bytes consumed.
func readString(b []byte) (val []byte, null bool, n int, err error) {
	if len(b) < 4 {
		return nil, false, 0, bad("string", "length prefix truncated")
	}
	l := int32(binary.LittleEndian.Uint32(b))
	if l == -1 {
		return nil, true, 4, nil
	}
	if l < 0 || int(l) > len(b)-4 {
		return nil, false, 0, bad("string", "length %d exceeds the %d bytes that follow", l, len(b)-4)
	}
	return b[4 : 4+int(l)], false, 4 + int(l), nil
}
