package refcodec

import (
	"bytes"
	"crypto/rand"
	"crypto/rsa"
	"crypto/sha1"
	"crypto/x509"
	"encoding/binary"
	"io"
)

// LeafCertificate parses a DER blob that holds one certificate or a chain
// (leaf first) and returns the leaf.
func LeafCertificate(der []byte) (*x509.Certificate, error) {
	certs, err := x509.ParseCertificates(der)
	if err != nil {
		return nil, err
	}
	if len(certs) == 0 {
		return nil, bad("certificate", "no certificate in %d bytes", len(der))
	}
	return certs[0], nil
}

// LeafPublicKey returns the RSA public key of the leaf certificate.
func LeafPublicKey(der []byte) (*rsa.PublicKey, error) {
	c, err := LeafCertificate(der)
	if err != nil {
		return nil, err
	}
	pub, ok := c.PublicKey.(*rsa.PublicKey)
	if !ok {
		return nil, bad("certificate", "public key is %T, not RSA", c.PublicKey)
	}
	return pub, nil
}

// Thumbprint is the CertificateDigest of Part 6: SHA-1 over the DER encoding of
// the (leaf) certificate.
func Thumbprint(der []byte) ([]byte, error) {
	c, err := LeafCertificate(der)
	if err != nil {
		return nil, err
	}
	s := sha1.Sum(c.Raw)
	return s[:], nil
}

func asymEncryptBlock(p *Policy, rnd io.Reader, pub *rsa.PublicKey, pt []byte) ([]byte, error) {
	switch p.AsymEnc {
	case EncRSA15:
		return rsa.EncryptPKCS1v15(rnd, pub, pt)
	case EncOAEPSHA1, EncOAEPSHA256:
		h := sha1.New
		if p.AsymEnc == EncOAEPSHA256 {
			h = p.AsymHash().New // SHA-256
		}
		return rsa.EncryptOAEP(h(), rnd, pub, pt, nil)
	}
	return nil, bad("policy", "%s has no asymmetric encryption", p.Name)
}

func asymDecryptBlock(p *Policy, priv *rsa.PrivateKey, ct []byte) ([]byte, error) {
	switch p.AsymEnc {
	case EncRSA15:
		return rsa.DecryptPKCS1v15(rand.Reader, priv, ct)
	case EncOAEPSHA1:
		return rsa.DecryptOAEP(sha1.New(), rand.Reader, priv, ct, nil)
	case EncOAEPSHA256:
		return rsa.DecryptOAEP(p.AsymHash().New(), rand.Reader, priv, ct, nil)
	}
	return nil, bad("policy", "%s has no asymmetric encryption", p.Name)
}

func asymSign(p *Policy, rnd io.Reader, priv *rsa.PrivateKey, msg []byte) ([]byte, error) {
	h := p.AsymHash()
	d := h.New()
	d.Write(msg)
	digest := d.Sum(nil)
	switch p.AsymSig {
	case SigPKCS1SHA1, SigPKCS1SHA256:
		return rsa.SignPKCS1v15(rnd, priv, h, digest)
	case SigPSSSHA256:
		return rsa.SignPSS(rnd, priv, h, digest, &rsa.PSSOptions{SaltLength: pssSaltLen, Hash: h})
	}
	return nil, bad("policy", "%s has no asymmetric signature", p.Name)
}

func asymVerify(p *Policy, pub *rsa.PublicKey, msg, sig []byte) error {
	h := p.AsymHash()
	d := h.New()
	d.Write(msg)
	digest := d.Sum(nil)
	switch p.AsymSig {
	case SigPKCS1SHA1, SigPKCS1SHA256:
		return rsa.VerifyPKCS1v15(pub, h, digest, sig)
	case SigPSSSHA256:
		return rsa.VerifyPSS(pub, h, digest, sig, &rsa.PSSOptions{SaltLength: pssSaltLen, Hash: h})
	}
	return bad("policy", "%s has no asymmetric signature", p.Name)
}

// AsymHeader carries everything needed to build an OPN chunk.
type AsymHeader struct {
	ChunkType       byte // 'F' (OPN messages are not chunked)
	SecureChannelID uint32
	SequenceNumber  uint32
	RequestID       uint32

	// SenderCert is placed into the security header as is (DER leaf or chain);
	// SenderKey signs. ReceiverCert (DER leaf or chain) supplies the encrypting
	// public key and the thumbprint of its leaf. All three are ignored for
	// policy None (null ByteStrings are written).
	SenderCert   []byte
	SenderKey    *rsa.PrivateKey
	ReceiverCert []byte
}

// AsymOptions modify how BuildAsymChunk blocks and pads (zero value =
// canonical: maximal plaintext blocks, minimal padding).
type AsymOptions struct {
	// PlainBlock is the plaintext block size to use; 0 = the maximum the scheme
	// allows for the receiver's key (key bytes - 11 / 42 / 66).
	PlainBlock int
	// FullBlockWhenAligned pads with a whole plaintext block when no padding is
	// needed (the literal reading of the PaddingSize formula of §6.7.2.5).
	FullBlockWhenAligned bool
	// Rand supplies the randomness of the RSA schemes (default crypto/rand).
	Rand io.Reader
}

func asymSecurityHeader(p *Policy, senderCert, thumb []byte) []byte {
	var b []byte
	b = appendString(b, []byte(p.URI), false)
	b = appendString(b, senderCert, senderCert == nil)
	b = appendString(b, thumb, thumb == nil)
	return b
}

// BuildAsymChunk builds an OPN chunk for the policy.
func BuildAsymChunk(p *Policy, h AsymHeader, body []byte, o AsymOptions) ([]byte, error) {
	rnd := o.Rand
	if rnd == nil {
		rnd = rand.Reader
	}
	ct := h.ChunkType
	if ct == 0 {
		ct = 'F'
	}
	hdr := make([]byte, HeaderLen)
	copy(hdr, "OPN")
	hdr[3] = ct
	binary.LittleEndian.PutUint32(hdr[8:], h.SecureChannelID)
	seq := make([]byte, SeqHeaderLen)
	binary.LittleEndian.PutUint32(seq[0:], h.SequenceNumber)
	binary.LittleEndian.PutUint32(seq[4:], h.RequestID)

	if !p.Secure() {
		b := append(hdr, asymSecurityHeader(p, nil, nil)...)
		b = append(b, seq...)
		b = append(b, body...)
		binary.LittleEndian.PutUint32(b[4:], uint32(len(b)))
		return b, nil
	}

	pub, err := LeafPublicKey(h.ReceiverCert)
	if err != nil {
		return nil, err
	}
	thumb, err := Thumbprint(h.ReceiverCert)
	if err != nil {
		return nil, err
	}
	if h.SenderKey == nil {
		return nil, bad("build", "sender key required")
	}
	b := append(hdr, asymSecurityHeader(p, h.SenderCert, thumb)...)
	clearLen := len(b)
	b = append(b, seq...)
	b = append(b, body...)

	k := pub.Size()
	pbs := o.PlainBlock
	if pbs == 0 {
		pbs = p.AsymPlainBlock(pub)
	}
	if pbs <= 0 || pbs > p.AsymPlainBlock(pub) {
		return nil, bad("build", "plaintext block %d outside 1..%d", pbs, p.AsymPlainBlock(pub))
	}
	sigLen := h.SenderKey.Size()
	extra := pub.N.BitLen() > 2048 // ExtraPaddingSize iff the encrypting key is larger than 2048 bits
	sizeBytes := 1
	if extra {
		sizeBytes = 2
	}
	toEncrypt := SeqHeaderLen + len(body) + sizeBytes + sigLen
	pad := (pbs - toEncrypt%pbs) % pbs
	if pad == 0 && o.FullBlockWhenAligned {
		pad = pbs
	}
	if pad > 255 && !extra {
		return nil, bad("build", "padding %d does not fit the PaddingSize byte", pad)
	}
	for i := 0; i <= pad; i++ { // PaddingSize byte, then Padding
		b = append(b, byte(pad))
	}
	if extra {
		b = append(b, byte(pad>>8))
	}
	plainLen := len(b) - clearLen + sigLen
	if plainLen%pbs != 0 {
		return nil, bad("build", "internal: plaintext %d not a multiple of %d", plainLen, pbs)
	}
	blocks := plainLen / pbs
	binary.LittleEndian.PutUint32(b[4:], uint32(clearLen+blocks*k))
	sig, err := asymSign(p, rnd, h.SenderKey, b)
	if err != nil {
		return nil, err
	}
	b = append(b, sig...)
	out := append([]byte(nil), b[:clearLen]...)
	for i := 0; i < blocks; i++ {
		c, err := asymEncryptBlock(p, rnd, pub, b[clearLen+i*pbs:clearLen+(i+1)*pbs])
		if err != nil {
			return nil, err
		}
		out = append(out, c...)
	}
	return out, nil
}

// AsymParse are the receiver's credentials for ParseAsymChunk.
type AsymParse struct {
	// ReceiverKey decrypts (nil is fine for policy None).
	ReceiverKey *rsa.PrivateKey
	// ReceiverCert (DER leaf or chain), if set, is compared against the
	// ReceiverCertificateThumbprint of the chunk.
	ReceiverCert []byte
}

// ParseAsymChunk parses and verifies an OPN chunk; the policy is taken from the
// security header.
//
// Checks, in this order: header and MessageSize; the three security header
// fields are well-formed and in clear; the policy is known; (secured) sender
// certificate parses and holds an RSA key; the thumbprint is the SHA-1 of the
// receiver's leaf certificate; the rest of the chunk is a positive multiple of
// the receiver's key size and every block decrypts with the policy's scheme;
// the trailing signature (sender key size) verifies over header..padding with
// the policy's algorithm; the padding footer is self-consistent, with
// ExtraPaddingSize present exactly if the receiver's key is > 2048 bit.
func ParseAsymChunk(raw []byte, o AsymParse) (*Chunk, error) {
	c := &Chunk{}
	if err := parseMessageHeader(raw, c); err != nil {
		return c, err
	}
	if c.MessageType != "OPN" {
		return c, bad("header", "message type %q is not OPN", c.MessageType)
	}
	pos := HeaderLen
	uri, null, n, err := readString(raw[pos:])
	if err != nil || null {
		return c, bad("security-header", "SecurityPolicyUri unreadable (null=%v, %v)", null, err)
	}
	pos += n
	c.PolicyURI = string(uri)
	cert, _, n, err := readString(raw[pos:])
	if err != nil {
		return c, bad("security-header", "SenderCertificate: %v", err)
	}
	pos += n
	c.SenderCertificate = cert
	thumb, _, n, err := readString(raw[pos:])
	if err != nil {
		return c, bad("security-header", "ReceiverCertificateThumbprint: %v", err)
	}
	pos += n
	c.ReceiverThumbprint = thumb
	c.SecurityHeaderLen = pos - HeaderLen

	p := PolicyByURI(c.PolicyURI)
	if p == nil || p.URI != c.PolicyURI {
		return c, bad("policy", "unknown SecurityPolicyUri %q", c.PolicyURI)
	}
	if !p.Secure() {
		c.Plain = append([]byte(nil), raw...)
		if len(raw) < pos+SeqHeaderLen {
			return c, bad("short", "no room for the sequence header")
		}
		c.SequenceNumber = binary.LittleEndian.Uint32(raw[pos:])
		c.RequestID = binary.LittleEndian.Uint32(raw[pos+4:])
		c.Body = c.Plain[pos+SeqHeaderLen:]
		return c, nil
	}

	senderPub, err := LeafPublicKey(cert)
	if err != nil {
		return c, bad("sender-certificate", "%v", err)
	}
	if o.ReceiverKey == nil {
		return c, bad("keys", "no receiver key")
	}
	if o.ReceiverCert != nil {
		want, err := Thumbprint(o.ReceiverCert)
		if err != nil {
			return c, err
		}
		if !bytes.Equal(want, thumb) {
			return c, bad("thumbprint", "ReceiverCertificateThumbprint % x is not the SHA-1 of the receiver's certificate (% x)", thumb, want)
		}
	}
	c.Signed, c.Encrypted = true, true
	k := o.ReceiverKey.Size()
	c.CipherBlock = k
	c.CipherLen = len(raw) - pos
	if c.CipherLen <= 0 || c.CipherLen%k != 0 {
		return c, bad("cipher-length", "encrypted region of %d bytes is not a positive multiple of the receiver's key size %d", c.CipherLen, k)
	}
	plain := append([]byte(nil), raw[:pos]...)
	for i := pos; i < len(raw); i += k {
		pt, err := asymDecryptBlock(p, o.ReceiverKey, raw[i:i+k])
		if err != nil {
			return c, bad("decrypt", "cipher block %d of %d does not decrypt with the scheme of %s: %v", (i-pos)/k, c.CipherLen/k, p.Name, err)
		}
		c.PlainBlocks = append(c.PlainBlocks, len(pt))
		plain = append(plain, pt...)
	}
	c.Plain = plain
	sigLen := senderPub.Size()
	extra := o.ReceiverKey.N.BitLen() > 2048
	sizeBytes := 1
	if extra {
		sizeBytes = 2
	}
	if len(plain) < pos+SeqHeaderLen+sizeBytes+sigLen {
		return c, bad("short", "plaintext of %d bytes cannot hold sequence header, footer and a %d byte signature", len(plain)-pos, sigLen)
	}
	end := len(plain) - sigLen
	c.Signature = plain[end:]
	if err := asymVerify(p, senderPub, plain[:end], c.Signature); err != nil {
		return c, bad("signature", "asymmetric signature of %s over header..padding (plaintext, %d bytes) does not verify with the sender certificate's key: %v", p.Name, end, err)
	}
	room := end - pos - SeqHeaderLen // bytes available for body + footer
	padOK := func(withExtra bool) (padSize, footLen int, ok bool) {
		e := end
		hi := 0
		if withExtra {
			if room < 2 {
				return 0, 0, false
			}
			hi = int(plain[e-1])
			e--
		}
		lo := int(plain[e-1])
		n := hi<<8 | lo
		foot := n + 1
		if withExtra {
			foot++
		}
		if foot > room {
			return n, foot, false
		}
		for _, x := range plain[e-1-n : e] {
			if int(x) != lo {
				return n, foot, false
			}
		}
		return n, foot, true
	}
	n, foot, ok := padOK(extra)
	if !ok {
		if _, _, alt := padOK(!extra); alt {
			return c, bad("extra-padding", "receiver key has %d bits so ExtraPaddingSize must be present=%v, but the footer only parses with present=%v", o.ReceiverKey.N.BitLen(), extra, !extra)
		}
		tail := plain[pos+SeqHeaderLen : end]
		if len(tail) > 24 {
			tail = tail[len(tail)-24:]
		}
		return c, bad("padding", "padding footer not self-consistent (ExtraPaddingSize present=%v, declared padding %d, room %d); bytes before the signature: % x", extra, n, room, tail)
	}
	c.PaddingSize, c.ExtraPaddingSize, c.FooterLen = n, extra, foot
	c.SequenceNumber = binary.LittleEndian.Uint32(plain[pos:])
	c.RequestID = binary.LittleEndian.Uint32(plain[pos+4:])
	c.Body = plain[pos+SeqHeaderLen : end-foot]
	return c, nil
}
