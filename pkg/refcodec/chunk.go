package refcodec

import (
	"bytes"
	"crypto/hmac"
	"encoding/binary"
)

// HeaderLen is the length of the secure conversation message header.
const HeaderLen = 12

// SeqHeaderLen is the length of the sequence header.
const SeqHeaderLen = 8

// Chunk is a parsed MessageChunk with every header value and footer field.
type Chunk struct {
	Raw []byte // the chunk as on the wire

	// message header (clear)
	MessageType     string // "MSG", "CLO", "OPN"
	ChunkType       byte   // 'F', 'C', 'A'
	MessageSize     uint32
	SecureChannelID uint32

	// security header (clear)
	SecurityHeaderLen  int    // bytes between the message header and the (possibly encrypted) region
	TokenID            uint32 // symmetric
	PolicyURI          string // asymmetric
	SenderCertificate  []byte // asymmetric, as on the wire (leaf or chain; nil = null)
	ReceiverThumbprint []byte // asymmetric (nil = null)

	// how the chunk was secured
	Signed    bool
	Encrypted bool

	// CipherLen is the length of the encrypted region (0 if not encrypted),
	// CipherBlock the cipher block size it must be a multiple of.
	CipherLen   int
	CipherBlock int
	// PlainBlocks (asymmetric only) lists the plaintext length recovered from
	// each RSA cipher block.
	PlainBlocks []int

	// Plain is the chunk with the encrypted region replaced by its plaintext:
	// header, security header, sequence header, body, padding footer, signature.
	Plain []byte

	// sequence header (inside the encrypted region)
	SequenceNumber uint32
	RequestID      uint32

	Body []byte

	// padding footer (only if Encrypted)
	PaddingSize      int  // number of Padding bytes (ExtraPaddingSize<<8 | PaddingSize)
	ExtraPaddingSize bool // ExtraPaddingSize byte present
	FooterLen        int  // bytes of the footer: PaddingSize byte + Padding + ExtraPaddingSize byte

	Signature []byte
}

// parseMessageHeader checks and decodes the 12 byte header.
func parseMessageHeader(raw []byte, c *Chunk) error {
	if len(raw) < HeaderLen {
		return bad("header", "chunk of %d bytes is shorter than the 12 byte message header", len(raw))
	}
	c.Raw = raw
	c.MessageType = string(raw[:3])
	c.ChunkType = raw[3]
	c.MessageSize = binary.LittleEndian.Uint32(raw[4:])
	c.SecureChannelID = binary.LittleEndian.Uint32(raw[8:])
	switch c.ChunkType {
	case 'F', 'C', 'A':
	default:
		return bad("header", "chunk type %q is not F, C or A", c.ChunkType)
	}
	if int(c.MessageSize) != len(raw) {
		return bad("message-size", "MessageSize field %d but the chunk has %d bytes", c.MessageSize, len(raw))
	}
	return nil
}

// SymHeader carries the header values of a symmetric chunk to build.
type SymHeader struct {
	MessageType     string // "MSG" or "CLO"
	ChunkType       byte   // 'F', 'C' or 'A'
	SecureChannelID uint32
	TokenID         uint32
	SequenceNumber  uint32
	RequestID       uint32
}

// SymOptions modify how BuildSymChunk pads (zero value = canonical).
type SymOptions struct {
	// FullBlockWhenAligned pads with a whole cipher block when no padding is
	// needed (the literal reading of the PaddingSize formula of §6.7.2.5).
	FullBlockWhenAligned bool
	// ExtraPadBlocks adds this many whole cipher blocks of padding on top of the
	// minimum (the footer stays self-consistent; PaddingSize must stay <= 255).
	ExtraPadBlocks int
}

// SymChunkSize returns the size on the wire of a symmetric chunk with a body of
// n bytes (canonical padding).
func SymChunkSize(p *Policy, mode Mode, n int) int {
	switch {
	case !p.Secure() || mode == ModeNone:
		return HeaderLen + 4 + SeqHeaderLen + n
	case mode == ModeSign:
		return HeaderLen + 4 + SeqHeaderLen + n + p.SymSignatureLen()
	}
	plain := SeqHeaderLen + n + 1 + p.SymSignatureLen()
	plain = (plain + p.BlockLen - 1) / p.BlockLen * p.BlockLen
	return HeaderLen + 4 + plain
}

// SymMaxBody returns the largest body that fits a symmetric chunk of at most
// chunkSize bytes (Part 6 §6.7.2.5 MaxBodySize, computed by search-free
// arithmetic on SymChunkSize).
func SymMaxBody(p *Policy, mode Mode, chunkSize int) int {
	switch {
	case !p.Secure() || mode == ModeNone:
		return chunkSize - HeaderLen - 4 - SeqHeaderLen
	case mode == ModeSign:
		return chunkSize - HeaderLen - 4 - SeqHeaderLen - p.SymSignatureLen()
	}
	blocks := (chunkSize - HeaderLen - 4) / p.BlockLen
	return blocks*p.BlockLen - SeqHeaderLen - 1 - p.SymSignatureLen()
}

// BuildSymChunk builds a MSG / CLO chunk secured with the SENDER's keys.
// keys may be nil for policy None / mode None.
func BuildSymChunk(p *Policy, mode Mode, keys *Keys, h SymHeader, body []byte, o SymOptions) ([]byte, error) {
	if len(h.MessageType) != 3 {
		return nil, bad("build", "message type %q", h.MessageType)
	}
	secure := p.Secure() && mode != ModeNone
	if secure && keys == nil {
		return nil, bad("build", "keys required for %s/%s", p.Name, mode)
	}
	b := make([]byte, HeaderLen+4+SeqHeaderLen, HeaderLen+4+SeqHeaderLen+len(body)+64)
	copy(b, h.MessageType)
	b[3] = h.ChunkType
	binary.LittleEndian.PutUint32(b[8:], h.SecureChannelID)
	binary.LittleEndian.PutUint32(b[12:], h.TokenID)
	binary.LittleEndian.PutUint32(b[16:], h.SequenceNumber)
	binary.LittleEndian.PutUint32(b[20:], h.RequestID)
	b = append(b, body...)

	if !secure {
		binary.LittleEndian.PutUint32(b[4:], uint32(len(b)))
		return b, nil
	}
	sigLen := p.SymSignatureLen()
	if mode == ModeSignAndEncrypt {
		// PaddingSize byte + Padding so that sequence header .. signature is a
		// whole number of cipher blocks
		toEncrypt := SeqHeaderLen + len(body) + 1 + sigLen
		pad := (p.BlockLen - toEncrypt%p.BlockLen) % p.BlockLen
		if pad == 0 && o.FullBlockWhenAligned {
			pad = p.BlockLen
		}
		pad += o.ExtraPadBlocks * p.BlockLen
		if pad > 255 {
			return nil, bad("build", "padding %d does not fit the PaddingSize byte", pad)
		}
		for i := 0; i <= pad; i++ { // PaddingSize byte followed by PaddingSize bytes of the same value
			b = append(b, byte(pad))
		}
	}
	// the signature covers the header with the final MessageSize; AES-CBC does
	// not change the length, so the final size is known now
	binary.LittleEndian.PutUint32(b[4:], uint32(len(b)+sigLen))
	b = append(b, symSign(p, keys, b)...)
	if mode == ModeSignAndEncrypt {
		ct, err := cbc(keys, b[HeaderLen+4:], true)
		if err != nil {
			return nil, err
		}
		copy(b[HeaderLen+4:], ct)
	}
	return b, nil
}

// ParseSymChunk parses and verifies a MSG / CLO chunk. senderKeys are the keys
// of the direction the chunk travelled in (client keys for a chunk sent by the
// client); nil for policy None / mode None.
//
// Checks, in this order: header and MessageSize; (SignAndEncrypt) the encrypted
// region starts right after the TokenId and is a positive multiple of the AES
// block; (Sign, SignAndEncrypt) the trailing HMAC verifies over everything
// before it; (SignAndEncrypt) the padding footer is self-consistent.
func ParseSymChunk(raw []byte, p *Policy, mode Mode, senderKeys *Keys) (*Chunk, error) {
	c := &Chunk{}
	if err := parseMessageHeader(raw, c); err != nil {
		return c, err
	}
	if c.MessageType != "MSG" && c.MessageType != "CLO" {
		return c, bad("header", "message type %q is not MSG or CLO", c.MessageType)
	}
	const off = HeaderLen + 4
	if len(raw) < off {
		return c, bad("security-header", "chunk of %d bytes has no room for the TokenId", len(raw))
	}
	c.SecurityHeaderLen = 4
	c.TokenID = binary.LittleEndian.Uint32(raw[HeaderLen:])
	secure := p.Secure() && mode != ModeNone
	if secure && senderKeys == nil {
		return c, bad("keys", "no keys for %s/%s", p.Name, mode)
	}
	plain := append([]byte(nil), raw...)
	sigLen := 0
	if secure {
		c.Signed = true
		sigLen = p.SymSignatureLen()
	}
	if secure && mode == ModeSignAndEncrypt {
		c.Encrypted = true
		c.CipherLen = len(raw) - off
		c.CipherBlock = p.BlockLen
		if c.CipherLen <= 0 || c.CipherLen%p.BlockLen != 0 {
			return c, bad("cipher-length", "encrypted region of %d bytes is not a positive multiple of the %d byte cipher block", c.CipherLen, p.BlockLen)
		}
		pt, err := cbc(senderKeys, raw[off:], false)
		if err != nil {
			return c, bad("decrypt", "%v", err)
		}
		copy(plain[off:], pt)
	}
	c.Plain = plain
	min := off + SeqHeaderLen + sigLen
	if c.Encrypted {
		min++
	}
	if len(plain) < min {
		return c, bad("short", "chunk of %d bytes cannot hold sequence header, footer and signature (%d)", len(plain), min)
	}
	end := len(plain) - sigLen
	if c.Signed {
		c.Signature = plain[end:]
		if !hmac.Equal(symSign(p, senderKeys, plain[:end]), c.Signature) {
			return c, bad("signature", "HMAC-%v over header..padding (plaintext, %d bytes) does not match the trailing %d bytes", p.SymHash, end, sigLen)
		}
	}
	if c.Encrypted {
		n := int(plain[end-1])
		if n+1 > end-off-SeqHeaderLen {
			return c, bad("padding", "PaddingSize %d exceeds the room between sequence header and signature (%d)", n, end-off-SeqHeaderLen-1)
		}
		foot := plain[end-1-n : end]
		if !bytes.Equal(foot, bytes.Repeat([]byte{byte(n)}, n+1)) {
			return c, bad("padding", "the %d bytes before the signature are not all equal to PaddingSize %d: % x", n+1, n, foot)
		}
		c.PaddingSize = n
		c.FooterLen = n + 1
		end -= n + 1
	}
	c.SequenceNumber = binary.LittleEndian.Uint32(plain[off:])
	c.RequestID = binary.LittleEndian.Uint32(plain[off+4:])
	c.Body = plain[off+SeqHeaderLen : end]
	return c, nil
}
