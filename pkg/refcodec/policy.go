// Package refcodec is an INDEPENDENT reference implementation of the OPC UA
// Part 6 "UA Secure Conversation" wire layout (UACP frames, symmetric MSG/CLO
// chunks, asymmetric OPN chunks, P_SHA key derivation) for the five RSA based
// security policies and for policy None.
//
// It is written from the specification (Part 6 §6.7 / §7.1, Part 7 security
// policy profiles, RFC 5246 §5 for P_hash, RFC 8017 for the RSA schemes) on top
// of the Go standard library crypto only. It imports gopcua's `ua` package
// solely to encode and decode *service bodies* (OpenSecureChannelRequest /
// Response, ReadRequest, ...) and never uasc or uapolicy, so that it can serve
// as the oracle for properties about gopcua's secure channel (C08, C10, C12,
// C13, C17).
//
// # Layout implemented (Part 6 §6.7.2)
//
//	MessageHeader (12 bytes, clear)      "MSG"|"CLO"|"OPN", 'F'|'C'|'A', MessageSize u32, SecureChannelId u32
//	SecurityHeader (clear)               symmetric : TokenId u32
//	                                     asymmetric: SecurityPolicyUri String, SenderCertificate ByteString,
//	                                                 ReceiverCertificateThumbprint ByteString (SHA-1 of the DER leaf)
//	--- start of the encrypted region (if the chunk is encrypted) ---
//	SequenceHeader (8 bytes)             SequenceNumber u32, RequestId u32
//	Body
//	Padding footer (only if encrypted)   PaddingSize byte, Padding (PaddingSize bytes, each = PaddingSize),
//	                                     ExtraPaddingSize byte (only if the encrypting key is > 2048 bit)
//	Signature (only if signed)           over everything before it, header included, computed on the plaintext
//	                                     with MessageSize already set to the final (encrypted) size
//
// Asymmetric chunks are always signed and encrypted when the policy is not None
// (whatever the channel's MessageSecurityMode); symmetric chunks are signed in
// mode Sign and signed+encrypted in mode SignAndEncrypt.
//
// # Tolerance
//
// As a receiver the reference demands only what the layout prescribes: every
// RSA cipher block must decrypt with the policy's scheme (the sender's plaintext
// block may be smaller than the maximum), the padding footer must be
// self-consistent (any PaddingSize), the signature must verify. As a sender it
// produces the canonical form (maximal plaintext blocks, minimal padding) unless
// told otherwise through the build options.
package refcodec

import (
	"crypto"
	"crypto/rsa"
	_ "crypto/sha1" // register SHA-1
	_ "crypto/sha256"
	"fmt"
)

// Mode is the MessageSecurityMode (Part 4 §7.20): values as on the wire.
type Mode uint32

const (
	ModeInvalid        Mode = 0
	ModeNone           Mode = 1
	ModeSign           Mode = 2
	ModeSignAndEncrypt Mode = 3
)

func (m Mode) String() string {
	switch m {
	case ModeNone:
		return "None"
	case ModeSign:
		return "Sign"
	case ModeSignAndEncrypt:
		return "SignAndEncrypt"
	}
	return fmt.Sprintf("Mode(%d)", uint32(m))
}

// AsymEncryption names the AsymmetricEncryptionAlgorithm of a policy.
type AsymEncryption int

const (
	EncNone       AsymEncryption = iota
	EncRSA15                     // RSAES-PKCS1-v1_5                        overhead 11
	EncOAEPSHA1                  // RSAES-OAEP, SHA-1, MGF1-SHA-1          overhead 2*20+2 = 42
	EncOAEPSHA256                // RSAES-OAEP, SHA-256, MGF1-SHA-256      overhead 2*32+2 = 66
)

// AsymSignature names the AsymmetricSignatureAlgorithm of a policy.
type AsymSignature int

const (
	SigNone        AsymSignature = iota
	SigPKCS1SHA1                 // RSASSA-PKCS1-v1_5 with SHA-1
	SigPKCS1SHA256               // RSASSA-PKCS1-v1_5 with SHA-256
	SigPSSSHA256                 // RSASSA-PSS with SHA-256, MGF1-SHA-256, salt 32 bytes
)

// URIPrefix is the common prefix of the security policy URIs.
const URIPrefix = "http://opcfoundation.org/UA/SecurityPolicy#"

// Policy is one row of the Part 7 security policy table.
type Policy struct {
	Name       string // URI fragment
	URI        string
	AsymEnc    AsymEncryption
	AsymSig    AsymSignature
	SymHash    crypto.Hash // hash of the symmetric HMAC and of the P_hash key derivation (0 for None)
	SigKeyLen  int         // DerivedSignatureKeyLength in bytes
	EncKeyLen  int         // AES key length in bytes
	BlockLen   int         // AES block = IV length in bytes
	NonceLen   int         // SecureChannelNonceLength in bytes
	MinKeyBits int         // MinAsymmetricKeyLength
	MaxKeyBits int         // MaxAsymmetricKeyLength
}

// Policies is the table, written from the Part 7 profiles:
//
//	Basic128Rsa15         Rsa15        RsaSha1          HmacSha1   (key 128 bit)  Aes128-CBC  P_SHA1    nonce 16  1024..2048
//	Basic256              RsaOaep      RsaSha1          HmacSha1   (key 192 bit)  Aes256-CBC  P_SHA1    nonce 32  1024..2048
//	Basic256Sha256        RsaOaep      RsaSha256        HmacSha256 (key 256 bit)  Aes256-CBC  P_SHA256  nonce 32  2048..4096
//	Aes128_Sha256_RsaOaep RsaOaep      RsaSha256        HmacSha256 (key 256 bit)  Aes128-CBC  P_SHA256  nonce 32  2048..4096
//	Aes256_Sha256_RsaPss  RsaOaepSha256 RsaPssSha256    HmacSha256 (key 256 bit)  Aes256-CBC  P_SHA256  nonce 32  2048..4096
var Policies = []*Policy{
	{Name: "None", URI: URIPrefix + "None"},
	{Name: "Basic128Rsa15", URI: URIPrefix + "Basic128Rsa15", AsymEnc: EncRSA15, AsymSig: SigPKCS1SHA1, SymHash: crypto.SHA1,
		SigKeyLen: 16, EncKeyLen: 16, BlockLen: 16, NonceLen: 16, MinKeyBits: 1024, MaxKeyBits: 2048},
	{Name: "Basic256", URI: URIPrefix + "Basic256", AsymEnc: EncOAEPSHA1, AsymSig: SigPKCS1SHA1, SymHash: crypto.SHA1,
		SigKeyLen: 24, EncKeyLen: 32, BlockLen: 16, NonceLen: 32, MinKeyBits: 1024, MaxKeyBits: 2048},
	{Name: "Basic256Sha256", URI: URIPrefix + "Basic256Sha256", AsymEnc: EncOAEPSHA1, AsymSig: SigPKCS1SHA256, SymHash: crypto.SHA256,
		SigKeyLen: 32, EncKeyLen: 32, BlockLen: 16, NonceLen: 32, MinKeyBits: 2048, MaxKeyBits: 4096},
	{Name: "Aes128_Sha256_RsaOaep", URI: URIPrefix + "Aes128_Sha256_RsaOaep", AsymEnc: EncOAEPSHA1, AsymSig: SigPKCS1SHA256, SymHash: crypto.SHA256,
		SigKeyLen: 32, EncKeyLen: 16, BlockLen: 16, NonceLen: 32, MinKeyBits: 2048, MaxKeyBits: 4096},
	{Name: "Aes256_Sha256_RsaPss", URI: URIPrefix + "Aes256_Sha256_RsaPss", AsymEnc: EncOAEPSHA256, AsymSig: SigPSSSHA256, SymHash: crypto.SHA256,
		SigKeyLen: 32, EncKeyLen: 32, BlockLen: 16, NonceLen: 32, MinKeyBits: 2048, MaxKeyBits: 4096},
}

// PolicyByURI looks a policy up by its URI (also accepts the bare fragment).
func PolicyByURI(uri string) *Policy {
	for _, p := range Policies {
		if p.URI == uri || p.Name == uri {
			return p
		}
	}
	return nil
}

// Secure reports whether the policy is not None.
func (p *Policy) Secure() bool { return p.AsymEnc != EncNone }

// SymSignatureLen is the length of the symmetric signature (the HMAC output).
func (p *Policy) SymSignatureLen() int {
	if !p.Secure() {
		return 0
	}
	return p.SymHash.Size()
}

// AsymOverhead is the number of bytes the asymmetric encryption scheme adds to
// every block: 11 for PKCS#1 v1.5, 2*hLen+2 for OAEP (RFC 8017 §7.1.1, §7.2.1).
func (p *Policy) AsymOverhead() int {
	switch p.AsymEnc {
	case EncRSA15:
		return 11
	case EncOAEPSHA1:
		return 2*20 + 2
	case EncOAEPSHA256:
		return 2*32 + 2
	}
	return 0
}

// AsymPlainBlock is the maximal plaintext block for a receiver key.
func (p *Policy) AsymPlainBlock(pub *rsa.PublicKey) int { return pub.Size() - p.AsymOverhead() }

// AsymHash returns the hash of the asymmetric signature algorithm.
func (p *Policy) AsymHash() crypto.Hash {
	switch p.AsymSig {
	case SigPKCS1SHA1:
		return crypto.SHA1
	case SigPKCS1SHA256, SigPSSSHA256:
		return crypto.SHA256
	}
	return 0
}

// pssSaltLen is the salt length the Aes256_Sha256_RsaPss profile prescribes.
const pssSaltLen = 32

// Error is a layout / crypto check that failed while parsing a chunk. Check is a
// stable identifier of the rule, Detail says what was seen.
type Error struct {
	Check  string
	Detail string
}

func (e *Error) Error() string { return "refcodec: " + e.Check + ": " + e.Detail }

func bad(check, format string, args ...any) *Error {
	return &Error{Check: check, Detail: fmt.Sprintf(format, args...)}
}
