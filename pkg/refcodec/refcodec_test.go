package refcodec

import (
	"bytes"
	"crypto/sha1"
	"crypto/sha256"
	"encoding/hex"
	"errors"
	"fmt"
	"net"
	"testing"

	"github.com/gopcua/opcua/ua"

	"verif/pkg/keys"
)

func unhex(s string) []byte {
	b, err := hex.DecodeString(s)
	if err != nil {
		panic(err)
	}
	return b
}

// TestVectors: P_hash against published vectors.
func TestVectors(t *testing.T) {
	// TLS 1.2 PRF test vector (PRF = P_SHA256(secret, label+seed), RFC 5246 §5)
	secret := unhex("9bbe436ba940f017b17652849a71db35")
	seed := append([]byte("test label"), unhex("a0ba9f936cda311827a6f796ffd5198c")...)
	want := "e3f229ba727be17b8d122620557cd453c2aab21d07c3d495329b52d4e61edb5a6b301791e90d35c9c9a46b4e14baf9af0fa022f7077def17abfd3797c0564bab4fbc91666e9def9b97fce34f796789baa48082d122ee42c5a72e5a5110fff70187347b66"
	if got := hex.EncodeToString(PHash(sha256.New, secret, seed, 100)); got != want {
		t.Errorf("P_SHA256 TLS vector: got %s", got)
	}
	// P_SHA1 vector found in /repo/uapolicy/securitypolicy_test.go (16/16/16)
	a := unhex("ee5168840e07f3945b6db73a413ec25c")
	b := unhex("9b0f5bf85e32fb37014369b314de7ae7")
	wantAB := "cbfb774244b103b3b52c107ca3ae80d4" + "0052b682b22c755471dbf7c98f8839fa" + "f897f413ccc7b819e545c7aec35d9d77"
	wantBA := "9e0aa920ed7ec2186db819958cd90fa5" + "9c11ea7daad87bbc9447cb1c06b5c64b" + "09aa4f50154d69c50b3b787fd8543645"
	if got := hex.EncodeToString(PHash(sha1.New, a, b, 48)); got != wantAB {
		t.Errorf("P_SHA1(secret=a, seed=b): got %s", got)
	}
	if got := hex.EncodeToString(PHash(sha1.New, b, a, 48)); got != wantBA {
		t.Errorf("P_SHA1(secret=b, seed=a): got %s", got)
	}
	// DeriveKeys: client keys = P(secret = server nonce, seed = client nonce)
	ck, sk := DeriveKeys(PolicyByURI("Basic128Rsa15"), a, b)
	if hex.EncodeToString(ck.Sign)+hex.EncodeToString(ck.Enc)+hex.EncodeToString(ck.IV) != wantBA {
		t.Errorf("client keys are not P(secret=ServerNonce, seed=ClientNonce)")
	}
	if hex.EncodeToString(sk.Sign)+hex.EncodeToString(sk.Enc)+hex.EncodeToString(sk.IV) != wantAB {
		t.Errorf("server keys are not P(secret=ClientNonce, seed=ServerNonce)")
	}
	for _, p := range Policies[1:] {
		ck, sk := DeriveKeys(p, bytes.Repeat([]byte{1}, p.NonceLen), bytes.Repeat([]byte{2}, p.NonceLen))
		if len(ck.Sign) != p.SigKeyLen || len(ck.Enc) != p.EncKeyLen || len(ck.IV) != 16 || len(sk.Sign) != p.SigKeyLen || bytes.Equal(ck.Sign, sk.Sign) {
			t.Errorf("%s: key lengths / separation wrong", p.Name)
		}
	}
}

func checkErr(t *testing.T, what string, err error, check string) {
	t.Helper()
	var e *Error
	if !errors.As(err, &e) || e.Check != check {
		t.Errorf("%s: got %v, want check %q", what, err, check)
	}
}

// TestSymRoundTrip: build/parse symmetric chunks; every tampering is caught by
// the named check.
func TestSymRoundTrip(t *testing.T) {
	for _, p := range Policies {
		for _, mode := range []Mode{ModeNone, ModeSign, ModeSignAndEncrypt} {
			if p.Secure() == (mode == ModeNone) {
				continue
			}
			ck, sk := DeriveKeys(p, bytes.Repeat([]byte{7}, 32), bytes.Repeat([]byte{9}, 32))
			for n := 0; n < 70; n++ {
				body := bytes.Repeat([]byte{byte(n)}, n)
				h := SymHeader{"MSG", 'F', 11, 22, 33, 44}
				raw, err := BuildSymChunk(p, mode, ck, h, body, SymOptions{ExtraPadBlocks: n % 3})
				if err != nil {
					t.Fatal(err)
				}
				if mode != ModeSignAndEncrypt || n%3 == 0 {
					if len(raw) != SymChunkSize(p, mode, n) {
						t.Fatalf("%s %s n=%d: size %d, SymChunkSize %d", p.Name, mode, n, len(raw), SymChunkSize(p, mode, n))
					}
				}
				c, err := ParseSymChunk(raw, p, mode, ck)
				if err != nil {
					t.Fatalf("%s %s n=%d: %v", p.Name, mode, n, err)
				}
				if !bytes.Equal(c.Body, body) || c.SecureChannelID != 11 || c.TokenID != 22 || c.SequenceNumber != 33 || c.RequestID != 44 || c.ChunkType != 'F' {
					t.Fatalf("%s %s n=%d: fields %+v", p.Name, mode, n, c)
				}
				if mode == ModeSignAndEncrypt {
					// sequence header is inside the encrypted region
					if bytes.Equal(raw[16:24], c.Plain[16:24]) {
						t.Fatalf("sequence header in clear")
					}
					if (len(raw)-16)%16 != 0 {
						t.Fatalf("cipher length")
					}
				}
				if !p.Secure() {
					continue
				}
				// wrong direction keys
				_, err = ParseSymChunk(raw, p, mode, sk)
				checkErr(t, "other direction's keys", err, "signature")
				// flipped bit anywhere
				for _, i := range []int{0, 5, 9, 13, 17, 24, len(raw) - 1} {
					if i >= len(raw) {
						continue
					}
					m := append([]byte(nil), raw...)
					m[i] ^= 0x10
					if _, err := ParseSymChunk(m, p, mode, ck); err == nil {
						t.Fatalf("%s %s n=%d: bit flip at %d accepted", p.Name, mode, n, i)
					}
				}
			}
			// max body arithmetic
			for cs := 8192; cs < 8192+40; cs++ {
				mb := SymMaxBody(p, mode, cs)
				if SymChunkSize(p, mode, mb) > cs || SymChunkSize(p, mode, mb+1) <= cs {
					t.Fatalf("%s %s: SymMaxBody(%d)=%d not maximal", p.Name, mode, cs, mb)
				}
			}
		}
	}
	// a padding footer that is signed but inconsistent
	p := PolicyByURI("Basic256Sha256")
	ck, _ := DeriveKeys(p, bytes.Repeat([]byte{7}, 32), bytes.Repeat([]byte{9}, 32))
	raw, _ := BuildSymChunk(p, ModeSignAndEncrypt, ck, SymHeader{"MSG", 'F', 1, 2, 3, 4}, make([]byte, 3), SymOptions{})
	c, _ := ParseSymChunk(raw, p, ModeSignAndEncrypt, ck)
	pl := append([]byte(nil), c.Plain[:len(c.Plain)-32]...)
	pl[len(pl)-2] ^= 1 // a Padding byte differs from PaddingSize
	pl = append(pl, symSign(p, ck, pl)...)
	ct, _ := cbc(ck, pl[16:], true)
	copy(pl[16:], ct)
	_, err := ParseSymChunk(pl, p, ModeSignAndEncrypt, ck)
	checkErr(t, "inconsistent padding", err, "padding")
}

// TestAsymRoundTrip: build/parse OPN chunks for all policies x allowed key sizes.
func TestAsymRoundTrip(t *testing.T) {
	for _, p := range Policies[1:] {
		var sizes []int
		for _, s := range []int{1024, 1536, 2048, 3072, 4096} {
			if s >= p.MinKeyBits && s <= p.MaxKeyBits {
				sizes = append(sizes, s)
			}
		}
		for _, sb := range sizes {
			for _, rb := range sizes {
				snd, rcv := keys.Get("a", sb), keys.Get("b", rb)
				for _, n := range []int{0, 1, 90, 131, 400, 1000} {
					body := bytes.Repeat([]byte{0xAB}, n)
					for _, o := range []AsymOptions{{}, {FullBlockWhenAligned: true}, {PlainBlock: p.AsymPlainBlock(&rcv.Key.PublicKey) - 64}} {
						h := AsymHeader{'F', 5, 6, 7, snd.Cert, snd.Key, rcv.Cert}
						raw, err := BuildAsymChunk(p, h, body, o)
						if err != nil {
							if o.FullBlockWhenAligned {
								continue
							}
							t.Fatalf("%s %d->%d n=%d: %v", p.Name, sb, rb, n, err)
						}
						c, err := ParseAsymChunk(raw, AsymParse{ReceiverKey: rcv.Key, ReceiverCert: rcv.Cert})
						if err != nil {
							t.Fatalf("%s %d->%d n=%d %+v: %v", p.Name, sb, rb, n, o, err)
						}
						if !bytes.Equal(c.Body, body) || c.SequenceNumber != 6 || c.RequestID != 7 || c.SecureChannelID != 5 {
							t.Fatalf("fields %+v", c)
						}
						if c.ExtraPaddingSize != (rb > 2048) || len(c.Signature) != sb/8 || c.CipherLen%(rb/8) != 0 {
							t.Fatalf("%s %d->%d: extra=%v sig=%d cipher=%d", p.Name, sb, rb, c.ExtraPaddingSize, len(c.Signature), c.CipherLen)
						}
						want := p.AsymPlainBlock(&rcv.Key.PublicKey)
						if o.PlainBlock != 0 {
							want = o.PlainBlock
						}
						for _, pb := range c.PlainBlocks {
							if pb != want {
								t.Fatalf("plain block %d want %d", pb, want)
							}
						}
						if n != 90 || o.PlainBlock != 0 || o.FullBlockWhenAligned {
							continue
						}
						// tampering
						m := append([]byte(nil), raw...)
						m[len(m)-1] ^= 1
						if _, err := ParseAsymChunk(m, AsymParse{ReceiverKey: rcv.Key, ReceiverCert: rcv.Cert}); err == nil {
							t.Fatalf("tampered cipher accepted")
						}
						m = append([]byte(nil), raw...)
						m[9] ^= 1 // channel id: clear, but signed
						_, err = ParseAsymChunk(m, AsymParse{ReceiverKey: rcv.Key, ReceiverCert: rcv.Cert})
						checkErr(t, "tampered header", err, "signature")
						_, err = ParseAsymChunk(raw, AsymParse{ReceiverKey: rcv.Key, ReceiverCert: snd.Cert})
						checkErr(t, "other thumbprint", err, "thumbprint")
					}
				}
			}
		}
	}
	// policy None
	raw, err := BuildAsymChunk(Policies[0], AsymHeader{SequenceNumber: 1, RequestID: 2}, []byte("xyz"), AsymOptions{})
	if err != nil {
		t.Fatal(err)
	}
	c, err := ParseAsymChunk(raw, AsymParse{})
	if err != nil || string(c.Body) != "xyz" || c.Encrypted || c.RequestID != 2 {
		t.Fatalf("none: %v %+v", err, c)
	}
}

// TestExtraPaddingDiagnosis: a chunk built with the wrong ExtraPaddingSize rule
// is reported by the extra-padding check.
func TestExtraPaddingDiagnosis(t *testing.T) {
	p := PolicyByURI("Basic256Sha256")
	snd, rcv := keys.Get("a", 2048), keys.Get("b", 4096)
	// hand-build: sender omits ExtraPaddingSize although the receiver key is 4096 bit
	good, _ := BuildAsymChunk(p, AsymHeader{'F', 1, 2, 3, snd.Cert, snd.Key, rcv.Cert}, make([]byte, 50), AsymOptions{})
	c, err := ParseAsymChunk(good, AsymParse{ReceiverKey: rcv.Key})
	if err != nil {
		t.Fatal(err)
	}
	clear := HeaderLen + c.SecurityHeaderLen
	pbs := p.AsymPlainBlock(&rcv.Key.PublicKey)
	pl := append([]byte(nil), c.Plain[:clear+8+50]...)
	pad := (pbs - (8+50+1+256)%pbs) % pbs
	if pad > 255 {
		t.Skip("padding does not fit one byte for this size")
	}
	for i := 0; i <= pad; i++ {
		pl = append(pl, byte(pad))
	}
	sig, err := asymSign(p, randReader{}, snd.Key, pl)
	if err != nil {
		t.Fatal(err)
	}
	pl = append(pl, sig...)
	out := append([]byte(nil), pl[:clear]...)
	for i := clear; i < len(pl); i += pbs {
		ct, err := asymEncryptBlock(p, randReader{}, &rcv.Key.PublicKey, pl[i:i+pbs])
		if err != nil {
			t.Fatal(err)
		}
		out = append(out, ct...)
	}
	_, err = ParseAsymChunk(out, AsymParse{ReceiverKey: rcv.Key})
	checkErr(t, "missing ExtraPaddingSize", err, "extra-padding")
}

type randReader struct{}

func (randReader) Read(b []byte) (int, error) {
	for i := range b {
		b[i] = byte(i*7 + 1)
	}
	return len(b), nil
}

// TestSessions: reference client <-> reference server over a pipe.
func TestSessions(t *testing.T) {
	for _, p := range Policies {
		for _, mode := range []Mode{ModeNone, ModeSign, ModeSignAndEncrypt} {
			if p.Secure() == (mode == ModeNone) {
				continue
			}
			t.Run(fmt.Sprintf("%s-%s", p.Name, mode), func(t *testing.T) {
				ck, sk := keys.Get("a", 2048), keys.Get("b", 2048)
				ln, err := net.Listen("tcp", "127.0.0.1:0")
				if err != nil {
					t.Fatal(err)
				}
				defer ln.Close()
				done := make(chan error, 1)
				go func() {
					conn, err := ln.Accept()
					if err != nil {
						done <- err
						return
					}
					defer conn.Close()
					srv := NewServerSession(conn, sk.Key, sk.Cert, 77, 88)
					if _, err := srv.AcceptHello(Acknowledge{ReceiveBufferSize: 65535, SendBufferSize: 65535}); err != nil {
						done <- err
						return
					}
					req, c, err := srv.ReadOpenRequest()
					if err != nil {
						done <- err
						return
					}
					if _, err := srv.OpenResponse(c.RequestID, 1, req.RequestHeader.RequestHandle, bytes.Repeat([]byte{5}, 32), 60000); err != nil {
						done <- err
						return
					}
					m, err := srv.ReadMessage()
					if err != nil {
						done <- err
						return
					}
					rr, ok := m.Service.(*ua.ReadRequest)
					if !ok || len(m.Chunks) != 3 {
						done <- fmt.Errorf("got %T in %d chunks", m.Service, len(m.Chunks))
						return
					}
					body, _ := EncodeService(&ua.ReadResponse{ResponseHeader: NewResponseHeader(rr.RequestHeader.RequestHandle), Results: []*ua.DataValue{}})
					_, err = srv.SendMessage(m.RequestID, 2, body, nil)
					done <- err
				}()
				conn, err := net.Dial("tcp", ln.Addr().String())
				if err != nil {
					t.Fatal(err)
				}
				defer conn.Close()
				var cl *Session
				if p.Secure() {
					cl = NewClientSession(conn, p, mode, ck.Key, ck.Cert, sk.Cert)
				} else {
					cl = NewClientSession(conn, p, mode, nil, nil, nil)
				}
				if _, err := cl.Hello(Hello{ReceiveBufferSize: 65535, SendBufferSize: 65535, EndpointURL: "opc.tcp://x"}); err != nil {
					t.Fatal(err)
				}
				if _, err := cl.OpenRequest(1, 1, false, bytes.Repeat([]byte{3}, 32), 60000); err != nil {
					t.Fatal(err)
				}
				if _, _, err := cl.ReadOpenResponse(); err != nil {
					t.Fatal(err)
				}
				if cl.ChannelID != 77 || cl.TokenID != 88 {
					t.Fatalf("ids %d %d", cl.ChannelID, cl.TokenID)
				}
				body, err := EncodeService(&ua.ReadRequest{RequestHeader: NewRequestHeader(9), NodesToRead: []*ua.ReadValueID{{NodeID: ua.NewStringNodeID(1, string(make([]byte, 500))), DataEncoding: &ua.QualifiedName{}}}})
				if err != nil {
					t.Fatal(err)
				}
				if _, err := cl.SendMessage(2, 2, body, []int{100, 0}); err != nil {
					t.Fatal(err)
				}
				m, err := cl.ReadMessage()
				if err != nil {
					t.Fatal(err)
				}
				if _, ok := m.Service.(*ua.ReadResponse); !ok || m.RequestID != 2 {
					t.Fatalf("got %T req %d", m.Service, m.RequestID)
				}
				if err := <-done; err != nil {
					t.Fatal(err)
				}
			})
		}
	}
}
