package refcodec

import (
	"crypto/aes"
	"crypto/cipher"
	"crypto/hmac"
	"hash"
)

// Keys are the symmetric keys of ONE sending direction of a channel.
type Keys struct {
	Sign []byte // HMAC key
	Enc  []byte // AES key
	IV   []byte // CBC initialisation vector (the same for every chunk of the token)
}

// PHash is P_hash of RFC 5246 §5:
//
//	P_hash(secret, seed) = HMAC_hash(secret, A(1) + seed) +
//	                       HMAC_hash(secret, A(2) + seed) + ...
//	A(0) = seed,  A(i) = HMAC_hash(secret, A(i-1))
//
// truncated to n bytes.
func PHash(newHash func() hash.Hash, secret, seed []byte, n int) []byte {
	mac := func(parts ...[]byte) []byte {
		m := hmac.New(newHash, secret)
		for _, p := range parts {
			m.Write(p)
		}
		return m.Sum(nil)
	}
	out := make([]byte, 0, n+64)
	a := mac(seed) // A(1)
	for len(out) < n {
		out = append(out, mac(a, seed)...)
		a = mac(a) // A(i+1)
	}
	return out[:n]
}

// DeriveKeys derives the keys of both directions from the two nonces exchanged
// in the OpenSecureChannel request / response (Part 6 §6.7.5, table "Cryptography
// key generation parameters"):
//
//	ClientSigningKey | ClientEncryptingKey | ClientInitializationVector = P_hash(secret = ServerNonce, seed = ClientNonce)
//	ServerSigningKey | ServerEncryptingKey | ServerInitializationVector = P_hash(secret = ClientNonce, seed = ServerNonce)
//
// with offsets 0, SigningKeyLength, SigningKeyLength+EncryptingKeyLength. The
// client keys secure what the client sends, the server keys what the server
// sends. For policy None both results are nil.
func DeriveKeys(p *Policy, clientNonce, serverNonce []byte) (client, server *Keys) {
	if !p.Secure() {
		return nil, nil
	}
	split := func(b []byte) *Keys {
		return &Keys{
			Sign: b[:p.SigKeyLen],
			Enc:  b[p.SigKeyLen : p.SigKeyLen+p.EncKeyLen],
			IV:   b[p.SigKeyLen+p.EncKeyLen : p.SigKeyLen+p.EncKeyLen+p.BlockLen],
		}
	}
	n := p.SigKeyLen + p.EncKeyLen + p.BlockLen
	client = split(PHash(p.SymHash.New, serverNonce, clientNonce, n))
	server = split(PHash(p.SymHash.New, clientNonce, serverNonce, n))
	return client, server
}

// symSign computes the symmetric signature (HMAC with the policy's hash).
func symSign(p *Policy, k *Keys, msg []byte) []byte {
	m := hmac.New(p.SymHash.New, k.Sign)
	m.Write(msg)
	return m.Sum(nil)
}

// cbc encrypts or decrypts whole AES blocks in CBC mode with the direction's IV.
func cbc(k *Keys, src []byte, encrypt bool) ([]byte, error) {
	blk, err := aes.NewCipher(k.Enc)
	if err != nil {
		return nil, err
	}
	dst := make([]byte, len(src))
	if encrypt {
		cipher.NewCBCEncrypter(blk, k.IV).CryptBlocks(dst, src)
	} else {
		cipher.NewCBCDecrypter(blk, k.IV).CryptBlocks(dst, src)
	}
	return dst, nil
}
