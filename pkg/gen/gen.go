// Package gen holds the rapid generators for OPC UA values: a reflection-driven
// generator for every registered service / extension object type plus
// specialists for the hand-written codecs (Variant, DataValue, DiagnosticInfo,
// LocalizedText, NodeID, ExpandedNodeID, ExtensionObject, GUID).
package gen

import (
	"fmt"
	"math"
	"reflect"
	"sort"
	"sync"
	"time"

	"github.com/gopcua/opcua/ua"
	"pgregory.net/rapid"
)

// TypeInfo describes one member of the type universe.
type TypeInfo struct {
	Name string
	Kind string       // "service", "extobj", "builtin"
	ID   uint32       // numeric type id (services, extension objects)
	Type reflect.Type // pointer type, e.g. *ua.ReadRequest
}

var (
	uniOnce  sync.Once
	universe []TypeInfo
)

// Universe enumerates, through the public API only, every registered service
// and extension object type (ids 0..2^17) plus the hand-written built-ins.
func Universe() []TypeInfo {
	uniOnce.Do(func() {
		seen := map[reflect.Type]bool{}
		for id := uint32(0); id < 1<<17; id++ {
			nid := ua.NewNumericNodeID(0, id)
			nb, _ := nid.Encode()
			if _, v, _ := ua.DecodeService(nb); v != nil {
				t := reflect.TypeOf(v)
				if !seen[t] {
					seen[t] = true
					universe = append(universe, TypeInfo{Name: t.Elem().Name(), Kind: "service", ID: id, Type: t})
				}
			}
			eo := append(append([]byte{}, nb...), 1, 1, 0, 0, 0, 0)
			var e ua.ExtensionObject
			func() {
				defer func() { _ = recover() }()
				_, _ = e.Decode(eo)
			}()
			if e.Value != nil {
				t := reflect.TypeOf(e.Value)
				if !seen[t] {
					seen[t] = true
					universe = append(universe, TypeInfo{Name: t.Elem().Name(), Kind: "extobj", ID: id, Type: t})
				}
			}
		}
		for _, v := range []any{&ua.Variant{}, &ua.DataValue{}, &ua.DiagnosticInfo{}, &ua.LocalizedText{}, &ua.QualifiedName{},
			&ua.NodeID{}, &ua.ExpandedNodeID{}, &ua.ExtensionObject{}, &ua.GUID{}, &ua.RequestHeader{}, &ua.ResponseHeader{}} {
			t := reflect.TypeOf(v)
			if !seen[t] {
				seen[t] = true
				universe = append(universe, TypeInfo{Name: t.Elem().Name(), Kind: "builtin", Type: t})
			}
		}
		sort.SliceStable(universe, func(i, j int) bool { return universe[i].Name < universe[j].Name })
	})
	return universe
}

// ExtObjTypes returns the registered extension object types.
func ExtObjTypes() []TypeInfo {
	var out []TypeInfo
	for _, ti := range Universe() {
		if ti.Kind == "extobj" {
			out = append(out, ti)
		}
	}
	return out
}

// G carries generation limits.
type G struct {
	MaxDepth int // nesting of Variant/DataValue/ExtensionObject/DiagnosticInfo
	MaxSlice int
}

// Default limits.
var Default = G{MaxDepth: 3, MaxSlice: 4}

var (
	timeType  = reflect.TypeOf(time.Time{})
	tVariant  = reflect.TypeOf(&ua.Variant{})
	tDataVal  = reflect.TypeOf(&ua.DataValue{})
	tDiag     = reflect.TypeOf(&ua.DiagnosticInfo{})
	tLocText  = reflect.TypeOf(&ua.LocalizedText{})
	tNodeID   = reflect.TypeOf(&ua.NodeID{})
	tExpNode  = reflect.TypeOf(&ua.ExpandedNodeID{})
	tExtObj   = reflect.TypeOf(&ua.ExtensionObject{})
	tGUID     = reflect.TypeOf(&ua.GUID{})
	tByteStr  = reflect.TypeOf([]byte{})
	tXML      = reflect.TypeOf(ua.XMLElement(""))
	tStatus   = reflect.TypeOf(ua.StatusCode(0))
	tQualName = reflect.TypeOf(&ua.QualifiedName{})
)

// Value generates a value of pointer type typ (as returned by Universe).
func (g G) Value(t *rapid.T, typ reflect.Type) any {
	return g.value(t, typ, 0).Interface()
}

func (g G) value(t *rapid.T, typ reflect.Type, depth int) reflect.Value {
	switch typ {
	case tVariant:
		return reflect.ValueOf(g.Variant(t, depth))
	case tDataVal:
		return reflect.ValueOf(g.DataValue(t, depth))
	case tDiag:
		return reflect.ValueOf(g.DiagnosticInfo(t, depth))
	case tLocText:
		return reflect.ValueOf(LocalizedText(t))
	case tNodeID:
		return reflect.ValueOf(NodeID(t))
	case tExpNode:
		return reflect.ValueOf(ExpandedNodeID(t))
	case tExtObj:
		return reflect.ValueOf(g.ExtensionObject(t, depth))
	case tGUID:
		return reflect.ValueOf(GUID(t))
	case timeType:
		return reflect.ValueOf(Time(t))
	}
	switch typ.Kind() {
	case reflect.Bool:
		return reflect.ValueOf(rapid.Bool().Draw(t, "b")).Convert(typ)
	case reflect.Int8, reflect.Int16, reflect.Int32, reflect.Int64:
		bits := typ.Bits()
		v := rapid.Int64Range(-(1<<(bits-1)), (1<<(bits-1))-1).Draw(t, "i")
		return reflect.ValueOf(v).Convert(typ)
	case reflect.Uint8, reflect.Uint16, reflect.Uint32:
		v := rapid.Uint64Range(0, (1<<typ.Bits())-1).Draw(t, "u")
		return reflect.ValueOf(v).Convert(typ)
	case reflect.Uint64:
		return reflect.ValueOf(rapid.Uint64().Draw(t, "u64")).Convert(typ)
	case reflect.Float32:
		return reflect.ValueOf(Float32(t)).Convert(typ)
	case reflect.Float64:
		return reflect.ValueOf(Float64(t)).Convert(typ)
	case reflect.String:
		return reflect.ValueOf(String(t)).Convert(typ)
	case reflect.Ptr:
		p := reflect.New(typ.Elem())
		g.fill(t, p.Elem(), depth)
		return p
	case reflect.Struct:
		p := reflect.New(typ).Elem()
		g.fill(t, p, depth)
		return p
	case reflect.Slice:
		if typ.Elem().Kind() == reflect.Uint8 {
			return reflect.ValueOf(Bytes(t)).Convert(typ)
		}
		k := rapid.IntRange(0, 9).Draw(t, "slk")
		switch {
		case k == 0:
			return reflect.Zero(typ)
		case k == 1 || depth >= g.MaxDepth+2:
			return reflect.MakeSlice(typ, 0, 0)
		}
		max := g.MaxSlice
		if depth > 0 {
			max = 2
		}
		n := rapid.IntRange(1, max).Draw(t, "sln")
		s := reflect.MakeSlice(typ, n, n)
		for i := 0; i < n; i++ {
			s.Index(i).Set(g.value(t, typ.Elem(), depth+1))
		}
		return s
	case reflect.Array:
		a := reflect.New(typ).Elem()
		for i := 0; i < a.Len(); i++ {
			a.Index(i).Set(g.value(t, typ.Elem(), depth+1))
		}
		return a
	case reflect.Interface:
		return reflect.Zero(typ)
	}
	panic(fmt.Sprintf("gen: unsupported type %s", typ))
}

func (g G) fill(t *rapid.T, s reflect.Value, depth int) {
	for i := 0; i < s.NumField(); i++ {
		f := s.Field(i)
		if !f.CanSet() {
			continue
		}
		f.Set(g.value(t, f.Type(), depth))
	}
}

// ---------------------------------------------------------------------------
// scalars

// Float32 draws floats including the special values.
func Float32(t *rapid.T) float32 {
	switch rapid.IntRange(0, 9).Draw(t, "f32k") {
	case 0:
		return float32(math.NaN())
	case 1:
		return float32(math.Inf(1))
	case 2:
		return float32(math.Inf(-1))
	case 3:
		return float32(math.Copysign(0, -1))
	case 4:
		return math.Float32frombits(0x7fc00001) // NaN with payload
	}
	return math.Float32frombits(rapid.Uint32().Draw(t, "f32bits"))
}

// Float64 draws floats including the special values.
func Float64(t *rapid.T) float64 {
	switch rapid.IntRange(0, 9).Draw(t, "f64k") {
	case 0:
		return math.NaN()
	case 1:
		return math.Inf(1)
	case 2:
		return math.Inf(-1)
	case 3:
		return math.Copysign(0, -1)
	case 4:
		return math.Float64frombits(0x7ff8000000000001)
	}
	return math.Float64frombits(rapid.Uint64().Draw(t, "f64bits"))
}

var stringPool = []string{"", "a", "ns=1;s=x", "héllo wörld", "日本語", "a\x00b", "\xff\xfe", " ", "x=y;z", "The quick brown fox"}

// String draws strings: empty, ASCII, multi-byte, invalid UTF-8.
func String(t *rapid.T) string {
	k := rapid.IntRange(0, 9).Draw(t, "strk")
	switch {
	case k <= 4:
		return rapid.SampledFrom(stringPool).Draw(t, "strp")
	case k == 5:
		return string(rapid.SliceOfN(rapid.Byte(), 0, 12).Draw(t, "strb"))
	case k == 6:
		return rapid.StringN(0, 40, 200).Draw(t, "strlong")
	}
	return rapid.StringN(0, 8, 32).Draw(t, "str")
}

// Bytes draws nil / empty / non-empty byte strings.
func Bytes(t *rapid.T) []byte {
	switch rapid.IntRange(0, 5).Draw(t, "bk") {
	case 0:
		return nil
	case 1:
		return []byte{}
	case 2:
		return rapid.SliceOfN(rapid.Byte(), 1, 200).Draw(t, "blong")
	}
	return rapid.SliceOfN(rapid.Byte(), 1, 12).Draw(t, "b")
}

// Time draws times within the int64-nanosecond range (stated in C01), at any
// sub-100ns offset.
func Time(t *rapid.T) time.Time {
	switch rapid.IntRange(0, 7).Draw(t, "tk") {
	case 0:
		return time.Time{}
	case 1:
		return time.Unix(0, 0).UTC()
	case 2:
		return time.Date(1678, 1, 1, 0, 0, 0, 0, time.UTC)
	case 3:
		return time.Date(2261, 12, 31, 23, 59, 59, 999999900, time.UTC)
	case 4:
		return time.Date(2024, 2, 29, 12, 0, 0, 123456789, time.UTC)
	}
	// 1678..2261 in nanoseconds
	ns := rapid.Int64Range(-9214560000000000000, 9214560000000000000).Draw(t, "tns")
	return time.Unix(0, ns).UTC()
}

// GUID draws a well-formed GUID.
func GUID(t *rapid.T) *ua.GUID {
	d4 := rapid.SliceOfN(rapid.Byte(), 8, 8).Draw(t, "guid4")
	return &ua.GUID{Data1: rapid.Uint32().Draw(t, "guid1"), Data2: rapid.Uint16().Draw(t, "guid2"), Data3: rapid.Uint16().Draw(t, "guid3"), Data4: d4}
}

func guidString(t *rapid.T) string {
	b := rapid.SliceOfN(rapid.Byte(), 16, 16).Draw(t, "guidb")
	return fmt.Sprintf("%X-%X-%X-%X-%X", b[0:4], b[4:6], b[6:8], b[8:10], b[10:16])
}

// NodeID draws a node id of any of the six encodings through the public constructors.
func NodeID(t *rapid.T) *ua.NodeID {
	ns := rapid.SampledFrom([]uint16{0, 0, 1, 2, 255, 256, 65535}).Draw(t, "ns")
	switch rapid.IntRange(0, 5).Draw(t, "nidk") {
	case 0:
		return ua.NewTwoByteNodeID(rapid.Uint8().Draw(t, "id8"))
	case 1:
		return ua.NewFourByteNodeID(uint8(ns), rapid.Uint16().Draw(t, "id16"))
	case 2:
		id := rapid.OneOf(rapid.SampledFrom([]uint32{0, 255, 256, 65535, 65536, math.MaxUint32}), rapid.Uint32()).Draw(t, "id32")
		return ua.NewNumericNodeID(ns, id)
	case 3:
		return ua.NewStringNodeID(ns, String(t))
	case 4:
		return ua.NewGUIDNodeID(ns, guidString(t))
	}
	return ua.NewByteStringNodeID(ns, Bytes(t))
}

// ExpandedNodeID draws an expanded node id with optional URI / server index.
func ExpandedNodeID(t *rapid.T) *ua.ExpandedNodeID {
	uri := ""
	if rapid.IntRange(0, 2).Draw(t, "hasuri") == 0 {
		uri = rapid.SampledFrom([]string{"urn:x", "http://example.org/UA/", "ü"}).Draw(t, "uri")
	}
	idx := uint32(0)
	if rapid.IntRange(0, 2).Draw(t, "hasidx") == 0 {
		idx = rapid.Uint32Range(1, math.MaxUint32).Draw(t, "idx")
	}
	return ua.NewExpandedNodeID(NodeID(t), uri, idx)
}

// LocalizedText draws all four mask combinations with consistent fields.
func LocalizedText(t *rapid.T) *ua.LocalizedText {
	l := &ua.LocalizedText{EncodingMask: uint8(rapid.IntRange(0, 3).Draw(t, "ltmask"))}
	if l.EncodingMask&ua.LocalizedTextLocale != 0 {
		l.Locale = rapid.SampledFrom([]string{"", "en", "de-DE", "日本"}).Draw(t, "locale")
	}
	if l.EncodingMask&ua.LocalizedTextText != 0 {
		l.Text = String(t)
	}
	return l
}

// DiagnosticInfo draws any mask with consistent fields, nesting bounded.
func (g G) DiagnosticInfo(t *rapid.T, depth int) *ua.DiagnosticInfo {
	d := &ua.DiagnosticInfo{EncodingMask: uint8(rapid.IntRange(0, 127).Draw(t, "dimask"))}
	if depth >= g.MaxDepth+3 {
		d.EncodingMask &^= ua.DiagnosticInfoInnerDiagnosticInfo
	}
	i32 := rapid.Int32()
	if d.Has(ua.DiagnosticInfoSymbolicID) {
		d.SymbolicID = i32.Draw(t, "sym")
	}
	if d.Has(ua.DiagnosticInfoNamespaceURI) {
		d.NamespaceURI = i32.Draw(t, "nsuri")
	}
	if d.Has(ua.DiagnosticInfoLocale) {
		d.Locale = i32.Draw(t, "loc")
	}
	if d.Has(ua.DiagnosticInfoLocalizedText) {
		d.LocalizedText = i32.Draw(t, "lt")
	}
	if d.Has(ua.DiagnosticInfoAdditionalInfo) {
		d.AdditionalInfo = String(t)
	}
	if d.Has(ua.DiagnosticInfoInnerStatusCode) {
		d.InnerStatusCode = ua.StatusCode(rapid.Uint32().Draw(t, "isc"))
	}
	if d.Has(ua.DiagnosticInfoInnerDiagnosticInfo) {
		d.InnerDiagnosticInfo = g.DiagnosticInfo(t, depth+1)
	}
	return d
}

// DataValue draws all 64 mask combinations with consistent fields.
func (g G) DataValue(t *rapid.T, depth int) *ua.DataValue {
	d := &ua.DataValue{EncodingMask: uint8(rapid.IntRange(0, 63).Draw(t, "dvmask")), Value: &ua.Variant{}}
	if d.Has(ua.DataValueValue) {
		d.Value = g.Variant(t, depth+1)
	}
	if d.Has(ua.DataValueStatusCode) {
		d.Status = ua.StatusCode(rapid.Uint32().Draw(t, "status"))
	}
	if d.Has(ua.DataValueSourceTimestamp) {
		d.SourceTimestamp = Time(t)
	}
	if d.Has(ua.DataValueSourcePicoseconds) {
		d.SourcePicoseconds = rapid.Uint16().Draw(t, "spico")
	}
	if d.Has(ua.DataValueServerTimestamp) {
		d.ServerTimestamp = Time(t)
	}
	if d.Has(ua.DataValueServerPicoseconds) {
		d.ServerPicoseconds = rapid.Uint16().Draw(t, "vpico")
	}
	return d
}

// ExtensionObject draws nil / empty / XML / registered-type bodies.
func (g G) ExtensionObject(t *rapid.T, depth int) *ua.ExtensionObject {
	k := rapid.IntRange(0, 9).Draw(t, "eok")
	if depth >= g.MaxDepth && k > 2 {
		k = 1
	}
	switch k {
	case 0:
		return nil // documented: a nil *ExtensionObject encodes as the empty object
	case 1:
		return ua.NewExtensionObject(nil)
	case 2:
		x := ua.XMLElement(String(t))
		return ua.NewExtensionObject(&x)
	}
	tis := ExtObjTypes()
	ti := tis[rapid.IntRange(0, len(tis)-1).Draw(t, "eotype")]
	v := g.value(t, ti.Type, depth+1).Interface()
	return ua.NewExtensionObject(v)
}

// scalarType returns the Go type of a Variant element for a built-in type id.
func scalarOf(g G, t *rapid.T, id ua.TypeID, depth int) reflect.Value {
	switch id {
	case ua.TypeIDBoolean:
		return reflect.ValueOf(rapid.Bool().Draw(t, "vb"))
	case ua.TypeIDSByte:
		return reflect.ValueOf(rapid.Int8().Draw(t, "vi8"))
	case ua.TypeIDByte:
		return reflect.ValueOf(rapid.Uint8().Draw(t, "vu8"))
	case ua.TypeIDInt16:
		return reflect.ValueOf(rapid.Int16().Draw(t, "vi16"))
	case ua.TypeIDUint16:
		return reflect.ValueOf(rapid.Uint16().Draw(t, "vu16"))
	case ua.TypeIDInt32:
		return reflect.ValueOf(rapid.Int32().Draw(t, "vi32"))
	case ua.TypeIDUint32:
		return reflect.ValueOf(rapid.Uint32().Draw(t, "vu32"))
	case ua.TypeIDInt64:
		return reflect.ValueOf(rapid.Int64().Draw(t, "vi64"))
	case ua.TypeIDUint64:
		return reflect.ValueOf(rapid.Uint64().Draw(t, "vu64"))
	case ua.TypeIDFloat:
		return reflect.ValueOf(Float32(t))
	case ua.TypeIDDouble:
		return reflect.ValueOf(Float64(t))
	case ua.TypeIDString:
		return reflect.ValueOf(String(t))
	case ua.TypeIDDateTime:
		return reflect.ValueOf(Time(t))
	case ua.TypeIDGUID:
		return reflect.ValueOf(GUID(t))
	case ua.TypeIDByteString:
		return reflect.ValueOf(Bytes(t))
	case ua.TypeIDXMLElement:
		return reflect.ValueOf(ua.XMLElement(String(t)))
	case ua.TypeIDNodeID:
		return reflect.ValueOf(NodeID(t))
	case ua.TypeIDExpandedNodeID:
		return reflect.ValueOf(ExpandedNodeID(t))
	case ua.TypeIDStatusCode:
		return reflect.ValueOf(ua.StatusCode(rapid.Uint32().Draw(t, "vsc")))
	case ua.TypeIDQualifiedName:
		return reflect.ValueOf(&ua.QualifiedName{NamespaceIndex: rapid.Uint16().Draw(t, "qnns"), Name: String(t)})
	case ua.TypeIDLocalizedText:
		return reflect.ValueOf(LocalizedText(t))
	case ua.TypeIDExtensionObject:
		e := g.ExtensionObject(t, depth+1)
		if e == nil {
			e = ua.NewExtensionObject(nil)
		}
		return reflect.ValueOf(e)
	case ua.TypeIDDataValue:
		return reflect.ValueOf(g.DataValue(t, depth+1))
	case ua.TypeIDVariant:
		return reflect.ValueOf(g.Variant(t, depth+1))
	case ua.TypeIDDiagnosticInfo:
		return reflect.ValueOf(g.DiagnosticInfo(t, depth+1))
	}
	panic("unknown type id")
}

// VariantShape names the array shape of a generated Variant.
var VariantShapes = []string{"scalar", "nil-array", "empty-array", "1d", "2d", "3d"}

// Variant draws a Variant of any built-in type and array shape via ua.NewVariant.
func (g G) Variant(t *rapid.T, depth int) *ua.Variant {
	v, _, _ := g.VariantInfo(t, depth)
	return v
}

// VariantInfo is Variant plus the drawn type id and shape (for class counters).
func (g G) VariantInfo(t *rapid.T, depth int) (*ua.Variant, ua.TypeID, string) {
	id := ua.TypeID(rapid.IntRange(0, 25).Draw(t, "vtype"))
	if depth >= g.MaxDepth {
		for id == ua.TypeIDVariant || id == ua.TypeIDDataValue || id == ua.TypeIDExtensionObject || id == ua.TypeIDDiagnosticInfo {
			id = ua.TypeID(rapid.IntRange(1, 21).Draw(t, "vtype2"))
		}
	}
	if id == ua.TypeIDNull {
		v, err := ua.NewVariant(nil)
		if err != nil {
			panic(err)
		}
		return v, id, "null"
	}
	shape := rapid.SampledFrom([]string{"scalar", "scalar", "scalar", "nil-array", "empty-array", "1d", "1d", "2d", "3d"}).Draw(t, "vshape")
	if depth > 0 && (shape == "2d" || shape == "3d") {
		shape = "1d"
	}
	if id == ua.TypeIDVariant && shape == "scalar" {
		// a scalar Variant holding a Variant is not a legal OPC UA value
		shape = "1d"
	}
	proto := scalarProto(id)
	et := proto
	if id == ua.TypeIDByte && shape != "scalar" {
		// arrays of Byte are ByteArray, []byte is a ByteString scalar
		switch shape {
		case "nil-array":
			return mustVariant(ua.ByteArray(nil)), id, shape
		case "empty-array":
			return mustVariant(ua.ByteArray{}), id, shape
		case "1d":
			return mustVariant(ua.ByteArray(rapid.SliceOfN(rapid.Byte(), 1, 20).Draw(t, "ba"))), id, shape
		}
		shape = "1d"
		return mustVariant(ua.ByteArray(rapid.SliceOfN(rapid.Byte(), 1, 20).Draw(t, "ba"))), id, shape
	}
	one := func() reflect.Value { return scalarOf(g, t, id, depth) }
	switch shape {
	case "scalar":
		return mustVariant(one().Interface()), id, shape
	case "nil-array":
		return mustVariant(reflect.Zero(reflect.SliceOf(et)).Interface()), id, shape
	case "empty-array":
		return mustVariant(reflect.MakeSlice(reflect.SliceOf(et), 0, 0).Interface()), id, shape
	case "1d":
		n := rapid.IntRange(1, 5).Draw(t, "vn")
		s := reflect.MakeSlice(reflect.SliceOf(et), n, n)
		for i := 0; i < n; i++ {
			s.Index(i).Set(one())
		}
		return mustVariant(s.Interface()), id, shape
	case "2d":
		a, b := rapid.IntRange(1, 3).Draw(t, "d0"), rapid.IntRange(1, 3).Draw(t, "d1")
		st := reflect.SliceOf(reflect.SliceOf(et))
		s := reflect.MakeSlice(st, a, a)
		for i := 0; i < a; i++ {
			r := reflect.MakeSlice(reflect.SliceOf(et), b, b)
			for j := 0; j < b; j++ {
				r.Index(j).Set(one())
			}
			s.Index(i).Set(r)
		}
		return mustVariant(s.Interface()), id, shape
	default: // 3d
		a, b, c := rapid.IntRange(1, 2).Draw(t, "d0"), rapid.IntRange(1, 3).Draw(t, "d1"), rapid.IntRange(1, 2).Draw(t, "d2")
		t1 := reflect.SliceOf(et)
		t2 := reflect.SliceOf(t1)
		t3 := reflect.SliceOf(t2)
		s := reflect.MakeSlice(t3, a, a)
		for i := 0; i < a; i++ {
			r := reflect.MakeSlice(t2, b, b)
			for j := 0; j < b; j++ {
				q := reflect.MakeSlice(t1, c, c)
				for k := 0; k < c; k++ {
					q.Index(k).Set(one())
				}
				r.Index(j).Set(q)
			}
			s.Index(i).Set(r)
		}
		return mustVariant(s.Interface()), id, shape
	}
}

// VariantError is the panic value when ua.NewVariant rejects a generated
// (legal) value; properties recover it and report it as a failure.
type VariantError struct {
	Value any
	Err   error
}

func (e VariantError) Error() string {
	return fmt.Sprintf("NewVariant(%T %v): %v", e.Value, e.Value, e.Err)
}

func mustVariant(v any) *ua.Variant {
	va, err := ua.NewVariant(v)
	if err != nil {
		panic(VariantError{v, err})
	}
	return va
}

func scalarProto(id ua.TypeID) reflect.Type {
	switch id {
	case ua.TypeIDBoolean:
		return reflect.TypeOf(false)
	case ua.TypeIDSByte:
		return reflect.TypeOf(int8(0))
	case ua.TypeIDByte:
		return reflect.TypeOf(uint8(0))
	case ua.TypeIDInt16:
		return reflect.TypeOf(int16(0))
	case ua.TypeIDUint16:
		return reflect.TypeOf(uint16(0))
	case ua.TypeIDInt32:
		return reflect.TypeOf(int32(0))
	case ua.TypeIDUint32:
		return reflect.TypeOf(uint32(0))
	case ua.TypeIDInt64:
		return reflect.TypeOf(int64(0))
	case ua.TypeIDUint64:
		return reflect.TypeOf(uint64(0))
	case ua.TypeIDFloat:
		return reflect.TypeOf(float32(0))
	case ua.TypeIDDouble:
		return reflect.TypeOf(float64(0))
	case ua.TypeIDString:
		return reflect.TypeOf("")
	case ua.TypeIDDateTime:
		return timeType
	case ua.TypeIDGUID:
		return tGUID
	case ua.TypeIDByteString:
		return tByteStr
	case ua.TypeIDXMLElement:
		return tXML
	case ua.TypeIDNodeID:
		return tNodeID
	case ua.TypeIDExpandedNodeID:
		return tExpNode
	case ua.TypeIDStatusCode:
		return tStatus
	case ua.TypeIDQualifiedName:
		return tQualName
	case ua.TypeIDLocalizedText:
		return tLocText
	case ua.TypeIDExtensionObject:
		return tExtObj
	case ua.TypeIDDataValue:
		return tDataVal
	case ua.TypeIDVariant:
		return tVariant
	case ua.TypeIDDiagnosticInfo:
		return tDiag
	}
	panic("unknown type id")
}
