package script

import (
	"context"
	"testing"
	"time"

	"github.com/gopcua/opcua"
	"github.com/gopcua/opcua/ua"
	"verif/pkg/keys"
)

func TestSmoke(t *testing.T) {
	// None
	s, err := Start(Options{})
	if err != nil {
		t.Fatal(err)
	}
	defer s.Close()
	c, err := opcua.NewClient(s.URL, opcua.SecurityMode(ua.MessageSecurityModeNone), opcua.RequestTimeout(2*time.Second))
	if err != nil {
		t.Fatal(err)
	}
	ctx := context.Background()
	if err := c.Connect(ctx); err != nil {
		t.Fatal(err)
	}
	v, err := c.Node(ua.NewNumericNodeID(1, 5)).Value(ctx)
	t.Logf("value %v err %v ns %v", v.Value(), err, c.Namespaces())
	c.Close(ctx)

	// secured
	sk := keys.Get("b", 2048)
	s2, err := Start(Options{Key: sk, Policy: ua.SecurityPolicyURIBasic256Sha256, Mode: ua.MessageSecurityModeSignAndEncrypt})
	if err != nil {
		t.Fatal(err)
	}
	defer s2.Close()
	ck := keys.Get("a", 2048)
	c2, err := opcua.NewClient(s2.URL, opcua.SecurityPolicy("Basic256Sha256"), opcua.SecurityMode(ua.MessageSecurityModeSignAndEncrypt),
		opcua.PrivateKey(ck.Key), opcua.Certificate(ck.Cert), opcua.RemoteCertificate(sk.Cert), opcua.AuthAnonymous(), opcua.RequestTimeout(2*time.Second))
	if err != nil {
		t.Fatal(err)
	}
	if err := c2.Connect(ctx); err != nil {
		t.Fatal(err)
	}
	v, err = c2.Node(ua.NewNumericNodeID(1, 5)).Value(ctx)
	t.Logf("secured value %v err %v", v.Value(), err)
	c2.Close(ctx)
}
