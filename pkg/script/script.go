// Package script is a scripted OPC UA server built on gopcua's public server
// side channel API (uacp.Listen + uasc.NewServerSecureChannel + Receive +
// SendResponseWithContext). It answers session setup by itself and lets a
// property decide order / delay / type / shape of every other response.
package script

import (
	"context"
	"crypto/rand"
	"fmt"
	"io"
	"sync"
	"sync/atomic"
	"time"

	"github.com/gopcua/opcua/ua"
	"github.com/gopcua/opcua/uacp"
	"github.com/gopcua/opcua/uasc"

	"verif/pkg/keys"
)

// Handler is called for every request. Return true if the request was dealt
// with (answered, or deliberately left unanswered); false selects the default
// behaviour (Server.Default).
type Handler func(c *Conn, req ua.Request, reqID uint32) bool

// Options configures Start.
type Options struct {
	Key     *keys.Pair // server key + certificate (needed for secured clients)
	ACK     *uacp.Acknowledge
	Handle  Handler
	Policy  string // advertised endpoint policy (default None)
	Mode    ua.MessageSecurityMode
	OnConn  func(c *Conn)
	OnClose func(c *Conn, err error)
}

// Server is a running scripted server.
type Server struct {
	URL  string
	opts Options
	ln   *uacp.Listener

	mu      sync.Mutex
	conns   []*Conn
	closed  bool
	nextTok uint32
	chanID  uint32
}

// Conn is one client connection (secure channel) on the scripted server.
type Conn struct {
	Srv *Server
	SC  *uasc.SecureChannel
	UC  *uacp.Conn
	ID  int

	mu       sync.Mutex
	requests int
}

// Start listens on a free loopback port.
func Start(o Options) (*Server, error) {
	if o.Policy == "" {
		o.Policy = ua.SecurityPolicyURINone
		o.Mode = ua.MessageSecurityModeNone
	}
	ack := o.ACK
	if ack == nil {
		a := *uacp.DefaultServerACK
		ack = &a
	}
	ln, err := uacp.Listen(context.Background(), "opc.tcp://127.0.0.1:0", ack)
	if err != nil {
		return nil, err
	}
	s := &Server{opts: o, ln: ln, URL: "opc.tcp://" + ln.Addr().String(), nextTok: 1000, chanID: 500}
	go s.acceptLoop()
	return s, nil
}

// Addr returns host:port.
func (s *Server) Addr() string { return s.ln.Addr().String() }

// Conns returns the connections accepted so far.
func (s *Server) Conns() []*Conn {
	s.mu.Lock()
	defer s.mu.Unlock()
	return append([]*Conn(nil), s.conns...)
}

// Close stops the listener and closes all connections.
func (s *Server) Close() {
	s.mu.Lock()
	s.closed = true
	conns := append([]*Conn(nil), s.conns...)
	s.mu.Unlock()
	s.ln.Close()
	for _, c := range conns {
		c.UC.Close()
	}
}

// DropConns closes all current connections but keeps listening.
func (s *Server) DropConns() {
	s.mu.Lock()
	conns := append([]*Conn(nil), s.conns...)
	s.mu.Unlock()
	for _, c := range conns {
		c.UC.Close()
	}
}

func (s *Server) acceptLoop() {
	for {
		uc, err := s.ln.Accept(context.Background())
		if err != nil {
			s.mu.Lock()
			closed := s.closed
			s.mu.Unlock()
			if closed {
				return
			}
			if _, ok := err.(interface{ Temporary() bool }); ok {
				time.Sleep(5 * time.Millisecond)
				continue
			}
			// a failed HEL/ACK handshake of one client must not stop the server
			time.Sleep(time.Millisecond)
			continue
		}
		cfg := &uasc.Config{SecurityPolicyURI: ua.SecurityPolicyURINone, SecurityMode: ua.MessageSecurityModeNone, Lifetime: 3600_000, RequestTimeout: 10 * time.Second}
		if s.opts.Key != nil {
			cfg.Certificate = s.opts.Key.Cert
			cfg.LocalKey = s.opts.Key.Key
		}
		s.mu.Lock()
		s.chanID++
		chanID := s.chanID
		idx := len(s.conns)
		s.mu.Unlock()
		errch := make(chan error, 8)
		sc, err := uasc.NewServerSecureChannel(s.URL, uc, cfg, errch, chanID, 1, chanID+7000)
		if err != nil {
			uc.Close()
			continue
		}
		c := &Conn{Srv: s, SC: sc, UC: uc, ID: idx}
		s.mu.Lock()
		s.conns = append(s.conns, c)
		s.mu.Unlock()
		if s.opts.OnConn != nil {
			s.opts.OnConn(c)
		}
		go c.loop()
	}
}

func (c *Conn) loop() {
	ctx := context.Background()
	var err error
	defer func() {
		c.UC.Close()
		if c.Srv.opts.OnClose != nil {
			c.Srv.opts.OnClose(c, err)
		}
	}()
	for {
		m := c.SC.Receive(ctx)
		if m.Err != nil {
			err = m.Err
			if m.Err == io.EOF {
				return
			}
			// a request-level error (e.g. an abort chunk) does not end the channel,
			// everything else does
			if _, ok := m.Err.(ua.StatusCode); ok && m.RequestID != 0 {
				continue
			}
			return
		}
		req := m.Request()
		if req == nil {
			continue // OPN was handled inside Receive
		}
		c.mu.Lock()
		c.requests++
		c.mu.Unlock()
		if h := c.Srv.opts.Handle; h != nil && h(c, req, m.RequestID) {
			continue
		}
		c.Srv.Default(c, req, m.RequestID)
	}
}

// Respond sends a response for a request id.
func (c *Conn) Respond(reqID uint32, resp ua.Response) error {
	return c.SC.SendResponseWithContext(context.Background(), reqID, resp)
}

// Header builds a well-formed response header for a request.
func Header(req ua.Request, status ua.StatusCode) *ua.ResponseHeader {
	h := &ua.ResponseHeader{
		Timestamp:          time.Now(),
		ServiceResult:      status,
		ServiceDiagnostics: &ua.DiagnosticInfo{},
		StringTable:        []string{},
		AdditionalHeader:   ua.NewExtensionObject(nil),
	}
	if req != nil && req.Header() != nil {
		h.RequestHandle = req.Header().RequestHandle
	}
	return h
}

// Fault builds a ServiceFault.
func Fault(req ua.Request, status ua.StatusCode) *ua.ServiceFault {
	return &ua.ServiceFault{ResponseHeader: Header(req, status)}
}

// Endpoint describes the advertised endpoint.
func (s *Server) Endpoint() *ua.EndpointDescription {
	ep := &ua.EndpointDescription{
		EndpointURL:         s.URL,
		Server:              &ua.ApplicationDescription{ApplicationURI: "urn:verif:script", ProductURI: "urn:verif:script", ApplicationName: ua.NewLocalizedText("script"), ApplicationType: ua.ApplicationTypeServer, DiscoveryURLs: []string{s.URL}},
		SecurityMode:        s.opts.Mode,
		SecurityPolicyURI:   s.opts.Policy,
		TransportProfileURI: "http://opcfoundation.org/UA-Profile/Transport/uatcp-uasc-uabinary",
		SecurityLevel:       1,
		UserIdentityTokens: []*ua.UserTokenPolicy{
			{PolicyID: "anonymous", TokenType: ua.UserTokenTypeAnonymous, SecurityPolicyURI: ua.SecurityPolicyURINone},
			{PolicyID: "username", TokenType: ua.UserTokenTypeUserName, SecurityPolicyURI: s.opts.Policy},
		},
	}
	if s.opts.Key != nil {
		ep.ServerCertificate = s.opts.Key.Cert
	}
	return ep
}

// Nonce returns n random bytes.
func Nonce(n int) []byte {
	b := make([]byte, n)
	rand.Read(b)
	return b
}

// CreateSessionResponse builds the canonical, correctly signed response.
func (s *Server) CreateSessionResponse(c *Conn, req *ua.CreateSessionRequest) (*ua.CreateSessionResponse, error) {
	tok := atomic.AddUint32(&s.nextTok, 1)
	resp := &ua.CreateSessionResponse{
		ResponseHeader:             Header(req, ua.StatusOK),
		SessionID:                  ua.NewNumericNodeID(1, tok),
		AuthenticationToken:        ua.NewNumericNodeID(0, tok),
		RevisedSessionTimeout:      req.RequestedSessionTimeout,
		ServerNonce:                Nonce(32),
		ServerEndpoints:            []*ua.EndpointDescription{s.Endpoint()},
		ServerSoftwareCertificates: []*ua.SignedSoftwareCertificate{},
		ServerSignature:            &ua.SignatureData{},
		MaxRequestMessageSize:      0,
	}
	if s.opts.Key != nil {
		resp.ServerCertificate = s.opts.Key.Cert
	}
	if len(req.ClientCertificate) > 0 && s.opts.Key != nil {
		sig, alg, err := c.SC.NewSessionSignature(req.ClientCertificate, req.ClientNonce)
		if err != nil {
			return nil, err
		}
		resp.ServerSignature = &ua.SignatureData{Algorithm: alg, Signature: sig}
	}
	return resp, nil
}

// NamespaceArray is what the default Read of i=2255 returns.
var NamespaceArray = []string{"http://opcfoundation.org/UA/", "urn:verif:script"}

// Default answers a request in the canonical well-shaped way.
func (s *Server) Default(c *Conn, req ua.Request, reqID uint32) {
	resp := s.Canonical(c, req)
	if resp != nil {
		_ = c.Respond(reqID, resp)
	}
}

// Canonical returns the canonical well-shaped response for a request (a
// ServiceFault BadServiceUnsupported for services it does not know).
func (s *Server) Canonical(c *Conn, req ua.Request) ua.Response {
	switch r := req.(type) {
	case *ua.GetEndpointsRequest:
		return &ua.GetEndpointsResponse{ResponseHeader: Header(req, ua.StatusOK), Endpoints: []*ua.EndpointDescription{s.Endpoint()}}
	case *ua.FindServersRequest:
		return &ua.FindServersResponse{ResponseHeader: Header(req, ua.StatusOK), Servers: []*ua.ApplicationDescription{s.Endpoint().Server}}
	case *ua.CreateSessionRequest:
		resp, err := s.CreateSessionResponse(c, r)
		if err != nil {
			return Fault(req, ua.StatusBadSecurityChecksFailed)
		}
		return resp
	case *ua.ActivateSessionRequest:
		return &ua.ActivateSessionResponse{ResponseHeader: Header(req, ua.StatusOK), ServerNonce: Nonce(32), Results: []ua.StatusCode{}, DiagnosticInfos: []*ua.DiagnosticInfo{}}
	case *ua.CloseSessionRequest:
		return &ua.CloseSessionResponse{ResponseHeader: Header(req, ua.StatusOK)}
	case *ua.ReadRequest:
		res := make([]*ua.DataValue, len(r.NodesToRead))
		for i, n := range r.NodesToRead {
			switch {
			case n.NodeID != nil && n.NodeID.Namespace() == 0 && n.NodeID.IntID() == 2255:
				res[i] = &ua.DataValue{EncodingMask: ua.DataValueValue, Value: ua.MustVariant(NamespaceArray)}
			default:
				res[i] = &ua.DataValue{EncodingMask: ua.DataValueValue, Value: ua.MustVariant(int32(42))}
			}
		}
		return &ua.ReadResponse{ResponseHeader: Header(req, ua.StatusOK), Results: res, DiagnosticInfos: []*ua.DiagnosticInfo{}}
	case *ua.WriteRequest:
		return &ua.WriteResponse{ResponseHeader: Header(req, ua.StatusOK), Results: make([]ua.StatusCode, len(r.NodesToWrite)), DiagnosticInfos: []*ua.DiagnosticInfo{}}
	case *ua.BrowseRequest:
		res := make([]*ua.BrowseResult, len(r.NodesToBrowse))
		for i := range res {
			res[i] = &ua.BrowseResult{StatusCode: ua.StatusOK, References: []*ua.ReferenceDescription{}}
		}
		return &ua.BrowseResponse{ResponseHeader: Header(req, ua.StatusOK), Results: res, DiagnosticInfos: []*ua.DiagnosticInfo{}}
	case *ua.BrowseNextRequest:
		res := make([]*ua.BrowseResult, len(r.ContinuationPoints))
		for i := range res {
			res[i] = &ua.BrowseResult{StatusCode: ua.StatusOK, References: []*ua.ReferenceDescription{}}
		}
		return &ua.BrowseNextResponse{ResponseHeader: Header(req, ua.StatusOK), Results: res, DiagnosticInfos: []*ua.DiagnosticInfo{}}
	case *ua.TranslateBrowsePathsToNodeIDsRequest:
		res := make([]*ua.BrowsePathResult, len(r.BrowsePaths))
		for i := range res {
			res[i] = &ua.BrowsePathResult{StatusCode: ua.StatusOK, Targets: []*ua.BrowsePathTarget{{TargetID: ua.NewExpandedNodeID(ua.NewNumericNodeID(1, 77), "", 0), RemainingPathIndex: 0xffffffff}}}
		}
		return &ua.TranslateBrowsePathsToNodeIDsResponse{ResponseHeader: Header(req, ua.StatusOK), Results: res, DiagnosticInfos: []*ua.DiagnosticInfo{}}
	case *ua.CallRequest:
		res := make([]*ua.CallMethodResult, len(r.MethodsToCall))
		for i := range res {
			res[i] = &ua.CallMethodResult{StatusCode: ua.StatusOK, InputArgumentResults: []ua.StatusCode{}, InputArgumentDiagnosticInfos: []*ua.DiagnosticInfo{}, OutputArguments: []*ua.Variant{}}
		}
		return &ua.CallResponse{ResponseHeader: Header(req, ua.StatusOK), Results: res, DiagnosticInfos: []*ua.DiagnosticInfo{}}
	case *ua.RegisterNodesRequest:
		return &ua.RegisterNodesResponse{ResponseHeader: Header(req, ua.StatusOK), RegisteredNodeIDs: r.NodesToRegister}
	case *ua.UnregisterNodesRequest:
		return &ua.UnregisterNodesResponse{ResponseHeader: Header(req, ua.StatusOK)}
	case *ua.HistoryReadRequest:
		res := make([]*ua.HistoryReadResult, len(r.NodesToRead))
		for i := range res {
			res[i] = &ua.HistoryReadResult{StatusCode: ua.StatusOK, HistoryData: ua.NewExtensionObject(nil)}
		}
		return &ua.HistoryReadResponse{ResponseHeader: Header(req, ua.StatusOK), Results: res, DiagnosticInfos: []*ua.DiagnosticInfo{}}
	case *ua.CreateSubscriptionRequest:
		id := atomic.AddUint32(&s.nextTok, 1)
		return &ua.CreateSubscriptionResponse{ResponseHeader: Header(req, ua.StatusOK), SubscriptionID: id, RevisedPublishingInterval: r.RequestedPublishingInterval,
			RevisedLifetimeCount: r.RequestedLifetimeCount, RevisedMaxKeepAliveCount: r.RequestedMaxKeepAliveCount}
	case *ua.ModifySubscriptionRequest:
		return &ua.ModifySubscriptionResponse{ResponseHeader: Header(req, ua.StatusOK), RevisedPublishingInterval: r.RequestedPublishingInterval,
			RevisedLifetimeCount: r.RequestedLifetimeCount, RevisedMaxKeepAliveCount: r.RequestedMaxKeepAliveCount}
	case *ua.DeleteSubscriptionsRequest:
		return &ua.DeleteSubscriptionsResponse{ResponseHeader: Header(req, ua.StatusOK), Results: make([]ua.StatusCode, len(r.SubscriptionIDs)), DiagnosticInfos: []*ua.DiagnosticInfo{}}
	case *ua.SetPublishingModeRequest:
		return &ua.SetPublishingModeResponse{ResponseHeader: Header(req, ua.StatusOK), Results: make([]ua.StatusCode, len(r.SubscriptionIDs)), DiagnosticInfos: []*ua.DiagnosticInfo{}}
	case *ua.TransferSubscriptionsRequest:
		res := make([]*ua.TransferResult, len(r.SubscriptionIDs))
		for i := range res {
			res[i] = &ua.TransferResult{StatusCode: ua.StatusBadSubscriptionIDInvalid, AvailableSequenceNumbers: []uint32{}}
		}
		return &ua.TransferSubscriptionsResponse{ResponseHeader: Header(req, ua.StatusOK), Results: res, DiagnosticInfos: []*ua.DiagnosticInfo{}}
	case *ua.CreateMonitoredItemsRequest:
		res := make([]*ua.MonitoredItemCreateResult, len(r.ItemsToCreate))
		for i, it := range r.ItemsToCreate {
			res[i] = &ua.MonitoredItemCreateResult{StatusCode: ua.StatusOK, MonitoredItemID: uint32(i + 1), RevisedSamplingInterval: it.RequestedParameters.SamplingInterval,
				RevisedQueueSize: it.RequestedParameters.QueueSize, FilterResult: ua.NewExtensionObject(nil)}
		}
		return &ua.CreateMonitoredItemsResponse{ResponseHeader: Header(req, ua.StatusOK), Results: res, DiagnosticInfos: []*ua.DiagnosticInfo{}}
	case *ua.ModifyMonitoredItemsRequest:
		res := make([]*ua.MonitoredItemModifyResult, len(r.ItemsToModify))
		for i := range res {
			res[i] = &ua.MonitoredItemModifyResult{StatusCode: ua.StatusOK, FilterResult: ua.NewExtensionObject(nil)}
		}
		return &ua.ModifyMonitoredItemsResponse{ResponseHeader: Header(req, ua.StatusOK), Results: res, DiagnosticInfos: []*ua.DiagnosticInfo{}}
	case *ua.DeleteMonitoredItemsRequest:
		return &ua.DeleteMonitoredItemsResponse{ResponseHeader: Header(req, ua.StatusOK), Results: make([]ua.StatusCode, len(r.MonitoredItemIDs)), DiagnosticInfos: []*ua.DiagnosticInfo{}}
	case *ua.SetMonitoringModeRequest:
		return &ua.SetMonitoringModeResponse{ResponseHeader: Header(req, ua.StatusOK), Results: make([]ua.StatusCode, len(r.MonitoredItemIDs)), DiagnosticInfos: []*ua.DiagnosticInfo{}}
	case *ua.SetTriggeringRequest:
		return &ua.SetTriggeringResponse{ResponseHeader: Header(req, ua.StatusOK), AddResults: make([]ua.StatusCode, len(r.LinksToAdd)), AddDiagnosticInfos: []*ua.DiagnosticInfo{},
			RemoveResults: make([]ua.StatusCode, len(r.LinksToRemove)), RemoveDiagnosticInfos: []*ua.DiagnosticInfo{}}
	case *ua.RepublishRequest:
		return Fault(req, ua.StatusBadMessageNotAvailable)
	case *ua.PublishRequest:
		// the default server never publishes: properties that need Publish
		// traffic answer it in their handler
		return nil
	}
	return Fault(req, ua.StatusBadServiceUnsupported)
}

// KeepAlive builds a keep-alive PublishResponse.
func KeepAlive(req *ua.PublishRequest, subID, seq uint32) *ua.PublishResponse {
	return &ua.PublishResponse{
		ResponseHeader:           Header(req, ua.StatusOK),
		SubscriptionID:           subID,
		AvailableSequenceNumbers: []uint32{},
		MoreNotifications:        false,
		NotificationMessage:      &ua.NotificationMessage{SequenceNumber: seq, PublishTime: time.Now(), NotificationData: []*ua.ExtensionObject{}},
		Results:                  make([]ua.StatusCode, len(req.SubscriptionAcknowledgements)),
		DiagnosticInfos:          []*ua.DiagnosticInfo{},
	}
}

// DataChange builds a PublishResponse with one data change notification.
func DataChange(req *ua.PublishRequest, subID, seq uint32, items map[uint32]*ua.DataValue) *ua.PublishResponse {
	r := KeepAlive(req, subID, seq)
	dcn := &ua.DataChangeNotification{DiagnosticInfos: []*ua.DiagnosticInfo{}}
	for h, v := range items {
		dcn.MonitoredItems = append(dcn.MonitoredItems, &ua.MonitoredItemNotification{ClientHandle: h, Value: v})
	}
	r.NotificationMessage.NotificationData = []*ua.ExtensionObject{ua.NewExtensionObject(dcn)}
	r.AvailableSequenceNumbers = []uint32{seq}
	return r
}

// String helps in logs.
func (c *Conn) String() string { return fmt.Sprintf("conn#%d", c.ID) }
