// Package keys serves the committed RSA fixtures (test-only keys).
package keys

import (
	"crypto/rsa"
	"crypto/x509"
	"embed"
	"encoding/pem"
	"fmt"
	"sync"
)

//go:embed data/*.pem
var data embed.FS

// Sizes are the key sizes (bits) for which fixtures "a" and "b" exist.
var Sizes = []int{768, 1024, 1536, 2048, 3072, 4096, 5120}

// Pair is a private key with its self-signed certificate (DER).
type Pair struct {
	Who             string
	Bits            int
	Key             *rsa.PrivateKey
	Cert            []byte // DER
	X509            *x509.Certificate
	KeyPEM, CertPEM []byte
}

var (
	mu    sync.Mutex
	cache = map[string]*Pair{}
)

// Get returns fixture who ("a" or "b") of the given size.
func Get(who string, bits int) *Pair {
	mu.Lock()
	defer mu.Unlock()
	k := fmt.Sprintf("%s%d", who, bits)
	if p, ok := cache[k]; ok {
		return p
	}
	kp, err := data.ReadFile("data/" + k + ".key.pem")
	if err != nil {
		panic(err)
	}
	cp, err := data.ReadFile("data/" + k + ".cert.pem")
	if err != nil {
		panic(err)
	}
	kb, _ := pem.Decode(kp)
	cb, _ := pem.Decode(cp)
	key, err := x509.ParsePKCS1PrivateKey(kb.Bytes)
	if err != nil {
		panic(err)
	}
	crt, err := x509.ParseCertificate(cb.Bytes)
	if err != nil {
		panic(err)
	}
	p := &Pair{Who: who, Bits: bits, Key: key, Cert: cb.Bytes, X509: crt, KeyPEM: kp, CertPEM: cp}
	cache[k] = p
	return p
}
