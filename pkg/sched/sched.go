// Package sched turns the verif scheduling points of /repo (uasc.verifPoint)
// into an owned schedule: a goroutine arriving at a point can be held until
// another point has been reached (or a bound passes), so that narrow windows
// (renewal vs. sender, late response vs. timeout) are hit by construction.
//
// Oracles never depend on the schedule having been obeyed: a hold that times
// out just lets the goroutine continue. The realised order is logged.
package sched

import (
	"sync"
	"time"
)

// Rule holds goroutines arriving at Point until Until has been reached Count
// more times (after the arrival), or MaxWait has passed. Times limits how many
// arrivals the rule applies to (0 = all).
type Rule struct {
	Point   string        `json:"point"`
	Until   string        `json:"until"`
	Count   int           `json:"count"`
	MaxWait time.Duration `json:"max_wait"`
	Times   int           `json:"times"`
	Skip    int           `json:"skip"` // ignore the first Skip arrivals
}

// Event is one entry of the realised order.
type Event struct {
	Point string
	At    time.Duration // since Start
	Held  time.Duration
}

// Controller implements the point callback.
type Controller struct {
	mu      sync.Mutex
	cond    *sync.Cond
	hits    map[string]int
	rules   []Rule
	applied []int
	arrived []int
	log     []Event
	start   time.Time
	off     bool
}

// New creates a controller with the given rules.
func New(rules []Rule) *Controller {
	c := &Controller{hits: map[string]int{}, rules: rules, applied: make([]int, len(rules)), arrived: make([]int, len(rules)), start: time.Now()}
	c.cond = sync.NewCond(&c.mu)
	return c
}

// Stop releases everybody and disables all rules.
func (c *Controller) Stop() {
	c.mu.Lock()
	c.off = true
	c.mu.Unlock()
	c.cond.Broadcast()
}

// Hits returns how often a point was reached.
func (c *Controller) Hits(name string) int {
	c.mu.Lock()
	defer c.mu.Unlock()
	return c.hits[name]
}

// Log returns the realised order.
func (c *Controller) Log() []Event {
	c.mu.Lock()
	defer c.mu.Unlock()
	return append([]Event(nil), c.log...)
}

// HeldCount returns how many arrivals were actually held by rule i until its
// condition became true (not by timeout).
func (c *Controller) Satisfied() int {
	c.mu.Lock()
	defer c.mu.Unlock()
	n := 0
	for _, a := range c.applied {
		n += a
	}
	return n
}

// Point is the callback to install with uasc.VerifSetPointFunc.
func (c *Controller) Point(name string) {
	c.mu.Lock()
	c.hits[name]++
	arrival := time.Since(c.start)
	c.cond.Broadcast()
	if c.off {
		c.log = append(c.log, Event{Point: name, At: arrival})
		c.mu.Unlock()
		return
	}
	var held time.Duration
	for i := range c.rules {
		r := c.rules[i]
		if r.Point != name {
			continue
		}
		c.arrived[i]++
		if c.arrived[i] <= r.Skip {
			continue
		}
		if r.Times > 0 && c.arrived[i]-r.Skip > r.Times {
			continue
		}
		cnt := r.Count
		if cnt <= 0 {
			cnt = 1
		}
		target := c.hits[r.Until] + cnt
		max := r.MaxWait
		if max <= 0 {
			max = 50 * time.Millisecond
		}
		deadline := time.Now().Add(max)
		// wake the waiters when the bound passes
		timer := time.AfterFunc(max, func() { c.cond.Broadcast() })
		t0 := time.Now()
		for !c.off && c.hits[r.Until] < target && time.Now().Before(deadline) {
			c.cond.Wait()
		}
		timer.Stop()
		held += time.Since(t0)
		if c.hits[r.Until] >= target {
			c.applied[i]++
		}
	}
	c.log = append(c.log, Event{Point: name, At: arrival, Held: held})
	c.mu.Unlock()
}
