// Package hostile generates byte strings for the decoder properties (C02, C03):
// structure-aware mutants of valid encodings, a grammar of hostile Variants /
// ExtensionObjects / masks, and raw noise.
package hostile

import (
	"encoding/binary"
	"reflect"

	"github.com/gopcua/opcua/ua"
	"pgregory.net/rapid"

	"verif/pkg/gen"
)

// Case is one decoder input.
type Case struct {
	Type  gen.TypeInfo
	Data  []byte
	Class string // how the bytes were produced
}

var hostileU32 = []uint32{0xffffffff, 0x7fffffff, 0x80000000, 0xfffffffe, 0x00ffffff, 0x0000ffff, 0x00010000, 0xffffff7f, 0, 1, 2, 0x10000, 0xffff, 0x0fffffff}
var hostileBytes = []byte{0, 1, 2, 3, 0x3f, 0x40, 0x7f, 0x80, 0x81, 0xc0, 0xc1, 0xfe, 0xff, 0x16, 0x17, 0x18, 0x19, 0x8f, 0x98, 0xd8}

func safeEncode(v any) (b []byte) {
	defer func() { _ = recover() }()
	b, _ = ua.Encode(v)
	return
}

// Valid returns a valid encoding of a generated value of a drawn type.
func Valid(t *rapid.T, uni []gen.TypeInfo) (gen.TypeInfo, []byte) {
	ti := uni[rapid.IntRange(0, len(uni)-1).Draw(t, "type")]
	v := gen.Default.Value(t, ti.Type)
	return ti, safeEncode(v)
}

// Mutate applies 1..3 byte-level mutations.
func Mutate(t *rapid.T, b []byte) ([]byte, string) {
	b = append([]byte{}, b...)
	k := rapid.IntRange(1, 3).Draw(t, "nmut")
	class := ""
	for i := 0; i < k; i++ {
		if len(b) == 0 {
			b = append(b, rapid.Byte().Draw(t, "seedbyte"))
			continue
		}
		pos := rapid.IntRange(0, len(b)-1).Draw(t, "pos")
		switch rapid.IntRange(0, 7).Draw(t, "mut") {
		case 0: // flip a bit
			b[pos] ^= 1 << rapid.IntRange(0, 7).Draw(t, "bit")
			class += "flip,"
		case 1: // hostile byte (masks!)
			b[pos] = rapid.SampledFrom(hostileBytes).Draw(t, "hb")
			class += "hbyte,"
		case 2, 3: // overwrite 4 bytes with a hostile length
			v := rapid.SampledFrom(hostileU32).Draw(t, "hu32")
			var w [4]byte
			binary.LittleEndian.PutUint32(w[:], v)
			for j := 0; j < 4 && pos+j < len(b); j++ {
				b[pos+j] = w[j]
			}
			class += "hu32,"
		case 4: // truncate
			b = b[:pos]
			class += "trunc,"
		case 5: // duplicate a range
			end := rapid.IntRange(pos, min(len(b), pos+16)).Draw(t, "end")
			b = append(b[:end:end], b[pos:]...)
			class += "dup,"
		case 6: // delete a range
			end := rapid.IntRange(pos, min(len(b), pos+8)).Draw(t, "dend")
			b = append(b[:pos:pos], b[end:]...)
			class += "del,"
		case 7: // random byte
			b[pos] = rapid.Byte().Draw(t, "rb")
			class += "rbyte,"
		}
	}
	return b, "mutant:" + class
}

func u32(v uint32) []byte {
	var w [4]byte
	binary.LittleEndian.PutUint32(w[:], v)
	return w[:]
}

// scalarBytes returns a plausible encoding of one scalar of a built-in type.
func scalarBytes(t *rapid.T, id int) []byte {
	switch id {
	case 1, 2, 3:
		return []byte{rapid.Byte().Draw(t, "s1")}
	case 4, 5:
		return rapid.SliceOfN(rapid.Byte(), 2, 2).Draw(t, "s2")
	case 6, 7, 10, 19:
		return rapid.SliceOfN(rapid.Byte(), 4, 4).Draw(t, "s4")
	case 8, 9, 11, 13:
		return rapid.SliceOfN(rapid.Byte(), 8, 8).Draw(t, "s8")
	case 12, 15, 16:
		s := rapid.SliceOfN(rapid.Byte(), 0, 6).Draw(t, "sstr")
		if len(s) == 0 && rapid.Bool().Draw(t, "nullstr") {
			return u32(0xffffffff)
		}
		return append(u32(uint32(len(s))), s...)
	case 14:
		return rapid.SliceOfN(rapid.Byte(), 16, 16).Draw(t, "s16")
	case 17:
		return []byte{0, rapid.Byte().Draw(t, "nid")}
	case 18:
		return []byte{0x80, rapid.Byte().Draw(t, "enid"), 1, 0, 0, 0, 'u'}
	case 20:
		return []byte{1, 0, 1, 0, 0, 0, 'q'}
	case 21:
		return []byte{3, 1, 0, 0, 0, 'l', 1, 0, 0, 0, 't'}
	case 22:
		return ExtObj(t)
	case 23:
		return []byte{0x02, 0, 0, 0x80, 0x80}
	case 24:
		return []byte{0x01, rapid.Byte().Draw(t, "innerbool")}
	case 25:
		return []byte{0x01, 7, 0, 0, 0}
	}
	return nil
}

// ExtObj produces extension objects: unknown type ids with arbitrary bodies,
// XML bodies, lengths 0 / -1 / beyond the input, known ids with short bodies.
func ExtObj(t *rapid.T) []byte {
	var b []byte
	switch rapid.IntRange(0, 3).Draw(t, "eotid") {
	case 0:
		b = []byte{0, 0}
	case 1:
		b = []byte{1, 0, 0x41, 0x01} // i=321 AnonymousIdentityToken_Encoding_DefaultBinary
	case 2:
		b = append([]byte{2, rapid.Byte().Draw(t, "eons"), 0}, rapid.SliceOfN(rapid.Byte(), 4, 4).Draw(t, "eoid")...)
	case 3:
		b = []byte{3, 1, 0, 3, 0, 0, 0, 'a', 'b', 'c'}
	}
	mask := rapid.SampledFrom([]byte{0, 1, 1, 1, 2, 2, 3, 0xff}).Draw(t, "eomask")
	b = append(b, mask)
	if mask == 0 {
		return b
	}
	body := rapid.SliceOfN(rapid.Byte(), 0, 12).Draw(t, "eobody")
	switch rapid.IntRange(0, 5).Draw(t, "eolen") {
	case 0:
		b = append(b, u32(0)...)
	case 1:
		b = append(b, u32(0xffffffff)...)
	case 2:
		b = append(b, u32(uint32(len(body))+uint32(rapid.IntRange(1, 5).Draw(t, "eoover")))...)
		b = append(b, body...)
	default:
		b = append(b, u32(uint32(len(body)))...)
		b = append(b, body...)
	}
	return b
}

// VariantBytes produces hostile and non-canonical Variant encodings.
func VariantBytes(t *rapid.T) []byte {
	id := rapid.IntRange(0, 27).Draw(t, "hvtype")
	flags := rapid.SampledFrom([]byte{0, 0, 0x40, 0x80, 0x80, 0xc0, 0xc0}).Draw(t, "hvflags")
	b := []byte{byte(id) | flags}
	if flags&0x80 == 0 {
		return append(b, scalarBytes(t, id)...)
	}
	n := rapid.SampledFrom([]int32{-1, 0, 1, 2, 3, 4, 6, 8, -2, -100, -2147483648, 65535, 65536, 2147483647}).Draw(t, "hvlen")
	b = append(b, u32(uint32(n))...)
	real := int(n)
	if real < 0 || real > 8 {
		real = rapid.IntRange(0, 2).Draw(t, "hvreal")
	}
	for i := 0; i < real; i++ {
		b = append(b, scalarBytes(t, id)...)
	}
	if flags&0x40 != 0 {
		switch rapid.IntRange(0, 6).Draw(t, "hvdims") {
		case 6: // very many dimensions of size 1 (the product stays the array length)
			// (62, 63, 64: around ua.MaxVariantArrayDimensions)
			k := rapid.SampledFrom([]int{40, 62, 63, 64, 300, 4000, 12000}).Draw(t, "hvdones")
			b = append(b, u32(uint32(k+1))...)
			b = append(b, u32(uint32(n))...)
			for i := 0; i < k; i++ {
				b = append(b, u32(1)...)
			}
		case 0: // matching dims
			b = append(b, u32(1)...)
			b = append(b, u32(uint32(n))...)
		case 1: // 2 dims
			b = append(b, u32(2)...)
			b = append(b, u32(uint32(max(1, real/2)))...)
			b = append(b, u32(2)...)
		case 2: // products that overflow int32 and / or int64 (wrap to 0 or to the array length)
			menu := [][]uint32{
				{65536, 65536, 1}, {65536, 65536, 16}, {65536, 65536, 65536},
				{65536, 65536, 65536, 65536}, {65536, 65536, 65536, 65536, 3},
				{1 << 30, 1 << 30, 16}, {1<<31 - 1, 1<<31 - 1, 4}, {1 << 16, 1 << 16, 1 << 16, 1 << 15, 2},
				{3, 5, 17, 257, 641, 65537, 6700417}, // product = 2^64 - 1 (== -1 in int64)
			}
			dims := menu[rapid.IntRange(0, len(menu)-1).Draw(t, "hvdmenu")]
			b = append(b, u32(uint32(len(dims)))...)
			for _, d := range dims {
				b = append(b, u32(d)...)
			}
		case 3: // huge dims count
			b = append(b, u32(rapid.SampledFrom([]uint32{0x0fffffff, 0x7fffffff, 0xffffffff, 0x80000000}).Draw(t, "hvdc"))...)
		case 4: // zero dims
			b = append(b, u32(0)...)
		case 5: // negative / zero dimension
			b = append(b, u32(2)...)
			b = append(b, u32(uint32(rapid.SampledFrom([]int32{0, -1}).Draw(t, "hvdneg")))...)
			b = append(b, u32(1)...)
		}
	}
	return b
}

// Tower produces nested recursion: Variant-in-Variant, DiagnosticInfo chains,
// DataValue<->Variant, of the given depth.
func Tower(t *rapid.T, depth int) (string, []byte) {
	kind := rapid.SampledFrom([]string{"variant", "diag", "datavalue", "variant-array"}).Draw(t, "tower")
	var b []byte
	switch kind {
	case "variant":
		for i := 0; i < depth; i++ {
			b = append(b, 0x18)
		}
		b = append(b, 0x01, 0x01)
	case "diag":
		for i := 0; i < depth; i++ {
			b = append(b, 0x40)
		}
		b = append(b, 0x00)
	case "datavalue":
		for i := 0; i < depth; i++ {
			b = append(b, 0x17, 0x01) // Variant(DataValue) , DataValue mask value
		}
		b = append(b, 0x00)
	case "variant-array":
		for i := 0; i < depth; i++ {
			b = append(b, 0x98, 1, 0, 0, 0)
		}
		b = append(b, 0x00)
	}
	return kind, b
}

// Wrapped embeds a Variant / ExtensionObject encoding in an enclosing value
// followed by further fields, so that a re-encoding with the wrong length shows
// up as misaligned trailing fields.
func Wrapped(t *rapid.T) (reflect.Type, []byte, string) {
	switch rapid.IntRange(0, 3).Draw(t, "wrap") {
	case 0: // DataValue{Value, Status, SourceTimestamp}
		b := []byte{0x07}
		b = append(b, VariantBytes(t)...)
		b = append(b, 0x0d, 0xf0, 0xad, 0x8b, 1, 2, 3, 4, 5, 6, 7, 0)
		return reflect.TypeOf(&ua.DataValue{}), b, "wrapped:datavalue(variant)"
	case 1: // WriteValue{NodeID, AttributeID, IndexRange, Value DataValue}
		b := []byte{0, 5, 13, 0, 0, 0, 0xff, 0xff, 0xff, 0xff, 0x03}
		b = append(b, VariantBytes(t)...)
		b = append(b, 0x78, 0x56, 0x34, 0x12)
		return reflect.TypeOf(&ua.WriteValue{}), b, "wrapped:writevalue(variant)"
	case 2: // Variant array of ExtensionObject, length 2
		b := []byte{0x96, 2, 0, 0, 0}
		b = append(b, ExtObj(t)...)
		b = append(b, ExtObj(t)...)
		return reflect.TypeOf(&ua.Variant{}), b, "wrapped:variant(extobj[2])"
	default: // DataValue{Value: Variant(ExtensionObject), Status}
		b := []byte{0x03, 0x16}
		b = append(b, ExtObj(t)...)
		b = append(b, 0x0d, 0xf0, 0xad, 0x8b)
		return reflect.TypeOf(&ua.DataValue{}), b, "wrapped:datavalue(extobj)"
	}
}

// Draw draws one decoder input of any class.
func Draw(t *rapid.T, uni []gen.TypeInfo) Case {
	k := rapid.IntRange(0, 19).Draw(t, "hclass")
	switch {
	case k <= 7:
		ti, b := Valid(t, uni)
		m, class := Mutate(t, b)
		return Case{ti, m, class}
	case k <= 9:
		ti, b := Valid(t, uni)
		return Case{ti, b, "valid"}
	case k <= 12:
		return Case{ti(&ua.Variant{}), VariantBytes(t), "grammar:variant"}
	case k <= 14:
		typ, b, class := Wrapped(t)
		return Case{gen.TypeInfo{Name: typ.Elem().Name(), Kind: "builtin", Type: typ}, b, class}
	case k == 15:
		return Case{ti(&ua.ExtensionObject{}), ExtObj(t), "grammar:extobj"}
	case k == 16:
		depth := rapid.SampledFrom([]int{1, 2, 10, 100, 1000, 10000}).Draw(t, "tdepth")
		kind, b := Tower(t, depth)
		typ := ti(&ua.Variant{})
		if kind == "diag" {
			typ = ti(&ua.DiagnosticInfo{})
		}
		return Case{typ, b, "tower:" + kind}
	case k == 17: // raw noise against a random type
		tinfo := uni[rapid.IntRange(0, len(uni)-1).Draw(t, "ntype")]
		return Case{tinfo, rapid.SliceOfN(rapid.Byte(), 0, 256).Draw(t, "noise"), "noise"}
	case k == 18: // valid prefix + hostile count
		tinfo, b := Valid(t, uni)
		if len(b) >= 4 {
			pos := rapid.IntRange(0, len(b)-4).Draw(t, "cpos")
			copy(b[pos:], u32(rapid.SampledFrom(hostileU32).Draw(t, "cnt")))
		}
		return Case{tinfo, b, "mutant:count"}
	default: // mask bytes: first byte set to every value
		tinfo, b := Valid(t, uni)
		if len(b) > 0 {
			b[0] = rapid.Byte().Draw(t, "mask0")
		}
		return Case{tinfo, b, "mutant:mask0"}
	}
}

func ti(v any) gen.TypeInfo {
	t := reflect.TypeOf(v)
	return gen.TypeInfo{Name: t.Elem().Name(), Kind: "builtin", Type: t}
}
