package stack

import (
	"context"
	"testing"
	"time"

	"github.com/gopcua/opcua"
	"github.com/gopcua/opcua/ua"
	"verif/pkg/keys"
)

func TestSmoke(t *testing.T) {
	t0 := time.Now()
	s, err := StartServer(ServerOpts{Sec: AllSec, Auth: []ua.UserTokenType{ua.UserTokenTypeAnonymous, ua.UserTokenTypeUserName}})
	if err != nil {
		t.Fatal(err)
	}
	defer s.Close()
	s.AddVariable("v1", int32(5))
	t.Logf("server up in %v at %s", time.Since(t0), s.URL)
	ctx := context.Background()
	// None
	c, err := Connect(s.URL, opcua.SecurityMode(ua.MessageSecurityModeNone))
	if err != nil {
		t.Fatal(err)
	}
	st, err := WriteValue(ctx, c, s.NodeID("v1"), int32(7))
	dv, err2 := ReadValue(ctx, c, s.NodeID("v1"))
	t.Logf("write %v %v read %v %v", st, err, dv.Value.Value(), err2)
	c.Close(ctx)
	// secured via endpoint selection
	eps, err := opcua.GetEndpoints(ctx, s.URL)
	if err != nil {
		t.Fatal(err)
	}
	t.Logf("%d endpoints", len(eps))
	ep, err := opcua.SelectEndpoint(eps, "Basic256Sha256", ua.MessageSecurityModeSignAndEncrypt)
	if err != nil {
		t.Fatal(err)
	}
	k := keys.Get("a", 2048)
	t1 := time.Now()
	c2, err := Connect(s.URL, opcua.PrivateKey(k.Key), opcua.Certificate(k.Cert), opcua.SecurityFromEndpoint(ep, ua.UserTokenTypeAnonymous))
	if err != nil {
		t.Fatal(err)
	}
	dv, err = ReadValue(ctx, c2, s.NodeID("v1"))
	t.Logf("secure read %v %v in %v", dv.Value.Value(), err, time.Since(t1))
	c2.Close(ctx)
}
