// Package stack starts an in-process gopcua server (public API only) on a free
// loopback port, with a writable test namespace, and builds clients for it.
package stack

import (
	"context"
	"fmt"
	"io"
	"log"
	"net"
	"sync"
	"time"

	"github.com/gopcua/opcua"
	"github.com/gopcua/opcua/id"
	"github.com/gopcua/opcua/server"
	"github.com/gopcua/opcua/ua"

	"verif/pkg/keys"
)

// Sec is one (policy, mode) pair a server enables.
type Sec struct {
	Policy string // short name or URI
	Mode   ua.MessageSecurityMode
}

// AllSec lists the 11 valid (policy, mode) pairs.
var AllSec = []Sec{
	{"None", ua.MessageSecurityModeNone},
	{"Basic128Rsa15", ua.MessageSecurityModeSign}, {"Basic128Rsa15", ua.MessageSecurityModeSignAndEncrypt},
	{"Basic256", ua.MessageSecurityModeSign}, {"Basic256", ua.MessageSecurityModeSignAndEncrypt},
	{"Basic256Sha256", ua.MessageSecurityModeSign}, {"Basic256Sha256", ua.MessageSecurityModeSignAndEncrypt},
	{"Aes128_Sha256_RsaOaep", ua.MessageSecurityModeSign}, {"Aes128_Sha256_RsaOaep", ua.MessageSecurityModeSignAndEncrypt},
	{"Aes256_Sha256_RsaPss", ua.MessageSecurityModeSign}, {"Aes256_Sha256_RsaPss", ua.MessageSecurityModeSignAndEncrypt},
}

// ServerOpts configures StartServer.
type ServerOpts struct {
	Sec   []Sec              // default: None/None
	Auth  []ua.UserTokenType // default: Anonymous
	Key   *keys.Pair         // server key/certificate (default keys.Get("b", 2048))
	Port  int                // 0 = pick a free port
	Extra []server.Option
}

// Server is a running gopcua server with a test namespace.
type Server struct {
	S      *server.Server
	URL    string
	Host   string
	Port   int
	NS     *server.NodeNameSpace // writable namespace (index NS.ID())
	Key    *keys.Pair
	cancel context.CancelFunc
	once   sync.Once
}

var quiet sync.Once

// Quiet silences the standard logger (the server logs on Start).
func Quiet() { quiet.Do(func() { log.SetOutput(io.Discard) }) }

// FreePort returns a currently free loopback port.
func FreePort() (int, error) {
	l, err := net.Listen("tcp", "127.0.0.1:0")
	if err != nil {
		return 0, err
	}
	defer l.Close()
	return l.Addr().(*net.TCPAddr).Port, nil
}

// StartServer builds and starts a server; retries on a port collision.
func StartServer(o ServerOpts) (*Server, error) {
	Quiet()
	if len(o.Sec) == 0 {
		o.Sec = []Sec{{"None", ua.MessageSecurityModeNone}}
	}
	if len(o.Auth) == 0 {
		o.Auth = []ua.UserTokenType{ua.UserTokenTypeAnonymous}
	}
	if o.Key == nil {
		o.Key = keys.Get("b", 2048)
	}
	var lastErr error
	for attempt := 0; attempt < 5; attempt++ {
		port := o.Port
		if port == 0 {
			p, err := FreePort()
			if err != nil {
				return nil, err
			}
			port = p
		}
		var opts []server.Option
		for _, s := range o.Sec {
			opts = append(opts, server.EnableSecurity(s.Policy, s.Mode))
		}
		for _, a := range o.Auth {
			opts = append(opts, server.EnableAuthMode(a))
		}
		opts = append(opts, server.PrivateKey(o.Key.Key), server.Certificate(o.Key.Cert), server.EndPoint("127.0.0.1", port))
		opts = append(opts, o.Extra...)
		s := server.New(opts...)
		ns := server.NewNodeNameSpace(s, "urn:verif:test")
		s.AddNamespace(ns)
		root, _ := s.Namespace(0)
		root.Objects().AddRef(ns.Objects(), id.HasComponent, true)
		ctx, cancel := context.WithCancel(context.Background())
		if err := s.Start(ctx); err != nil {
			cancel()
			lastErr = err
			if o.Port != 0 {
				time.Sleep(100 * time.Millisecond)
			}
			continue
		}
		return &Server{S: s, URL: fmt.Sprintf("opc.tcp://127.0.0.1:%d", port), Host: "127.0.0.1", Port: port, NS: ns, Key: o.Key, cancel: cancel}, nil
	}
	return nil, fmt.Errorf("stack: cannot start server: %w", lastErr)
}

// AddVariable adds a read/write variable with a string node id to the test namespace.
func (s *Server) AddVariable(name string, value any) *server.Node {
	n := s.NS.AddNewVariableStringNode(name, value)
	s.NS.Objects().AddRef(n, id.HasComponent, true)
	return n
}

// NodeID returns the node id of a variable added with AddVariable.
func (s *Server) NodeID(name string) *ua.NodeID { return ua.NewStringNodeID(s.NS.ID(), name) }

// Close stops the server.
func (s *Server) Close() {
	s.once.Do(func() {
		s.cancel()
		done := make(chan struct{})
		go func() { s.S.Close(); close(done) }()
		select {
		case <-done:
		case <-time.After(12 * time.Second):
		}
	})
}

// Connect builds a client with the options and connects it.
func Connect(url string, opts ...opcua.Option) (*opcua.Client, error) {
	c, err := opcua.NewClient(url, opts...)
	if err != nil {
		return nil, err
	}
	ctx, cancel := context.WithTimeout(context.Background(), 15*time.Second)
	defer cancel()
	if err := c.Connect(ctx); err != nil {
		return nil, err
	}
	return c, nil
}

// ReadValue reads the Value attribute of a node.
func ReadValue(ctx context.Context, c *opcua.Client, n *ua.NodeID) (*ua.DataValue, error) {
	resp, err := c.Read(ctx, &ua.ReadRequest{MaxAge: 0, TimestampsToReturn: ua.TimestampsToReturnNeither,
		NodesToRead: []*ua.ReadValueID{{NodeID: n, AttributeID: ua.AttributeIDValue, DataEncoding: &ua.QualifiedName{}}}})
	if err != nil {
		return nil, err
	}
	if len(resp.Results) != 1 {
		return nil, fmt.Errorf("stack: %d results", len(resp.Results))
	}
	return resp.Results[0], nil
}

// WriteValue writes the Value attribute of a node and returns the per-node status.
func WriteValue(ctx context.Context, c *opcua.Client, n *ua.NodeID, v any) (ua.StatusCode, error) {
	va, err := ua.NewVariant(v)
	if err != nil {
		return 0, err
	}
	resp, err := c.Write(ctx, &ua.WriteRequest{NodesToWrite: []*ua.WriteValue{{NodeID: n, AttributeID: ua.AttributeIDValue,
		Value: &ua.DataValue{EncodingMask: ua.DataValueValue, Value: va}}}})
	if err != nil {
		return 0, err
	}
	if len(resp.Results) != 1 {
		return 0, fmt.Errorf("stack: %d results", len(resp.Results))
	}
	return resp.Results[0], nil
}
