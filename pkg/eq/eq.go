// Package eq is a normalising deep equality for decoded OPC UA values.
//
// Normalisations (those the C01 statement documents): nil and empty slices are
// equal, NaN equals NaN, times are compared at 100 ns resolution (and the zero
// time.Time equals the OPC UA epoch-zero). Unexported fields are compared too.
package eq

import (
	"fmt"
	"math"
	"reflect"
	"time"
	"unsafe"
)

var timeType = reflect.TypeOf(time.Time{})

// Unlock makes a value obtained through an unexported field readable.
func Unlock(v reflect.Value) reflect.Value {
	if v.IsValid() && v.CanAddr() && !v.CanInterface() {
		return reflect.NewAt(v.Type(), unsafe.Pointer(v.UnsafeAddr())).Elem()
	}
	return v
}

// Diff returns "" if a and b are equal under the normalisations, else a
// description of the first difference.
func Diff(a, b any) string {
	return diff(reflect.ValueOf(a), reflect.ValueOf(b), "", 0)
}

// Equal reports Diff(a,b)=="".
func Equal(a, b any) bool { return Diff(a, b) == "" }

func ticks(t time.Time) int64 {
	if t.IsZero() {
		return math.MinInt64
	}
	return t.UnixNano() / 100
}

func diff(a, b reflect.Value, path string, depth int) string {
	if depth > 200 {
		return ""
	}
	a, b = Unlock(a), Unlock(b)
	if !a.IsValid() || !b.IsValid() {
		if a.IsValid() != b.IsValid() {
			// an untyped nil interface equals a typed nil / empty slice
			x := a
			if !x.IsValid() {
				x = b
			}
			if (x.Kind() == reflect.Slice && x.Len() == 0) || ((x.Kind() == reflect.Ptr || x.Kind() == reflect.Interface) && x.IsNil()) {
				return ""
			}
			return fmt.Sprintf("%s: one side is nil, other is %s", path, x.Type())
		}
		return ""
	}
	if a.Type() != b.Type() {
		return fmt.Sprintf("%s: type %s vs %s", path, a.Type(), b.Type())
	}
	if a.Type() == timeType {
		var ta, tb time.Time
		if a.CanInterface() && b.CanInterface() {
			ta, tb = a.Interface().(time.Time), b.Interface().(time.Time)
		} else {
			return ""
		}
		if ticks(ta) != ticks(tb) {
			return fmt.Sprintf("%s: time %v vs %v", path, ta, tb)
		}
		return ""
	}
	switch a.Kind() {
	case reflect.Bool:
		if a.Bool() != b.Bool() {
			return fmt.Sprintf("%s: %v vs %v", path, a.Bool(), b.Bool())
		}
	case reflect.Int, reflect.Int8, reflect.Int16, reflect.Int32, reflect.Int64:
		if a.Int() != b.Int() {
			return fmt.Sprintf("%s: %d vs %d", path, a.Int(), b.Int())
		}
	case reflect.Uint, reflect.Uint8, reflect.Uint16, reflect.Uint32, reflect.Uint64, reflect.Uintptr:
		if a.Uint() != b.Uint() {
			return fmt.Sprintf("%s: %d vs %d", path, a.Uint(), b.Uint())
		}
	case reflect.Float32, reflect.Float64:
		fa, fb := a.Float(), b.Float()
		if math.IsNaN(fa) && math.IsNaN(fb) {
			return ""
		}
		if math.Float64bits(fa) != math.Float64bits(fb) {
			return fmt.Sprintf("%s: %v vs %v", path, fa, fb)
		}
	case reflect.String:
		if a.String() != b.String() {
			return fmt.Sprintf("%s: %q vs %q", path, a.String(), b.String())
		}
	case reflect.Ptr:
		if a.IsNil() || b.IsNil() {
			if a.IsNil() != b.IsNil() {
				x := a
				if x.IsNil() {
					x = b
				}
				// documented: a nil *ExtensionObject is the empty extension object
				if x.Type().String() == "*ua.ExtensionObject" {
					e := x.Elem()
					if e.FieldByName("EncodingMask").Uint() == 0 && e.FieldByName("Value").IsNil() {
						return ""
					}
				}
				return fmt.Sprintf("%s: nil pointer vs non-nil (%s)", path, a.Type())
			}
			return ""
		}
		return diff(a.Elem(), b.Elem(), path, depth+1)
	case reflect.Interface:
		if a.IsNil() || b.IsNil() {
			if a.IsNil() != b.IsNil() {
				x := a
				if x.IsNil() {
					x = b
				}
				e := x.Elem()
				if e.Kind() == reflect.Slice && e.Len() == 0 {
					return ""
				}
				return fmt.Sprintf("%s: nil interface vs %s", path, e.Type())
			}
			return ""
		}
		return diff(a.Elem(), b.Elem(), path, depth+1)
	case reflect.Slice:
		if a.Len() != b.Len() {
			return fmt.Sprintf("%s: len %d vs %d", path, a.Len(), b.Len())
		}
		if a.Type().Elem().Kind() == reflect.Uint8 {
			for i := 0; i < a.Len(); i++ {
				if a.Index(i).Uint() != b.Index(i).Uint() {
					return fmt.Sprintf("%s[%d]: byte %d vs %d", path, i, a.Index(i).Uint(), b.Index(i).Uint())
				}
			}
			return ""
		}
		for i := 0; i < a.Len(); i++ {
			if d := diff(a.Index(i), b.Index(i), fmt.Sprintf("%s[%d]", path, i), depth+1); d != "" {
				return d
			}
		}
	case reflect.Array:
		for i := 0; i < a.Len(); i++ {
			if d := diff(a.Index(i), b.Index(i), fmt.Sprintf("%s[%d]", path, i), depth+1); d != "" {
				return d
			}
		}
	case reflect.Struct:
		for i := 0; i < a.NumField(); i++ {
			if d := diff(a.Field(i), b.Field(i), path+"."+a.Type().Field(i).Name, depth+1); d != "" {
				return d
			}
		}
	case reflect.Map:
		if a.Len() != b.Len() {
			return fmt.Sprintf("%s: map len %d vs %d", path, a.Len(), b.Len())
		}
		for _, k := range a.MapKeys() {
			bv := b.MapIndex(k)
			if !bv.IsValid() {
				return fmt.Sprintf("%s: key %v missing", path, k)
			}
			if d := diff(a.MapIndex(k), bv, fmt.Sprintf("%s[%v]", path, k), depth+1); d != "" {
				return d
			}
		}
	case reflect.Func, reflect.Chan, reflect.UnsafePointer:
		if a.IsNil() != b.IsNil() {
			return fmt.Sprintf("%s: nil-ness differs", path)
		}
	}
	return ""
}
