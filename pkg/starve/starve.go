// Package starve measures how late this process' goroutines are woken up: a
// few heartbeat goroutines sleep for a short interval and record by how much
// each wake-up overshoots. Timing based verdicts use it to tell "the code under
// test was slow" from "this process did not get the CPU" (DESIGN 3.4): a
// later-than verdict taken while the heartbeats were late is not trusted.
package starve

import (
	"sync"
	"sync/atomic"
	"time"
)

const interval = 2 * time.Millisecond

var (
	once      sync.Once
	windowMax atomic.Int64 // worst overshoot (ns) since the last Begin
)

// sink keeps the allocations of the allocating heartbeat alive for one tick.
var sink atomic.Pointer[[]byte]

func start() {
	// one heartbeat allocates like the code under test does (gopcua allocates a
	// receive buffer of 64 KiB per message): a goroutine that allocates can be
	// held up by the garbage collector (assist) while sleeping goroutines are not
	go func() {
		const iv = 5 * time.Millisecond
		for {
			t0 := time.Now()
			time.Sleep(iv)
			b := make([]byte, 64<<10)
			b[0] = 1
			sink.Store(&b)
			late := int64(time.Since(t0) - iv)
			for {
				old := windowMax.Load()
				if late <= old || windowMax.CompareAndSwap(old, late) {
					break
				}
			}
		}
	}()
	for i := 0; i < 8; i++ {
		go func() {
			for {
				t0 := time.Now()
				time.Sleep(interval)
				late := int64(time.Since(t0) - interval)
				for {
					old := windowMax.Load()
					if late <= old || windowMax.CompareAndSwap(old, late) {
						break
					}
				}
			}
		}()
	}
}

// Window is an observation window. Only one window at a time per process is
// meaningful (cases run one at a time in a process).
type Window struct{}

// Begin starts a window.
func Begin() *Window {
	once.Do(start)
	windowMax.Store(0)
	return &Window{}
}

// Worst returns the largest wake-up overshoot seen by any heartbeat goroutine
// since Begin. A heartbeat that is overdue right now becomes visible only when
// it wakes up; use Settle when the verdict matters.
func (w *Window) Worst() time.Duration { return time.Duration(windowMax.Load()) }

// Settle waits a few heartbeat intervals so that an overshoot in progress has
// been recorded, then returns Worst.
func (w *Window) Settle() time.Duration {
	time.Sleep(5 * interval)
	return w.Worst()
}
