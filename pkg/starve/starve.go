// Package starve measures how late this process' goroutines are woken up: a
// few heartbeat goroutines sleep for a short interval and record by how much
// each wake-up overshoots. Timing based verdicts use it to tell "the code under
// test was slow" from "this process did not get the CPU" (DESIGN 3.4): a
// later-than verdict taken while the heartbeats were late is not trusted.
package starve

import (
	"sync"
	"sync/atomic"
	"time"
)

const interval = 2 * time.Millisecond

var (
	once      sync.Once
	windowMax atomic.Int64 // worst overshoot (ns) since the last Begin
)

func start() {
	for i := 0; i < 8; i++ {
		go func() {
			for {
				t0 := time.Now()
				time.Sleep(interval)
				late := int64(time.Since(t0) - interval)
				for {
					old := windowMax.Load()
					if late <= old || windowMax.CompareAndSwap(old, late) {
						break
					}
				}
			}
		}()
	}
}

// Window is an observation window. Only one window at a time per process is
// meaningful (cases run one at a time in a process).
type Window struct{}

// Begin starts a window.
func Begin() *Window {
	once.Do(start)
	windowMax.Store(0)
	return &Window{}
}

// Worst returns the largest wake-up overshoot seen by any heartbeat goroutine
// since Begin. A heartbeat that is overdue right now becomes visible only when
// it wakes up; use Settle when the verdict matters.
func (w *Window) Worst() time.Duration { return time.Duration(windowMax.Load()) }

// Settle waits a few heartbeat intervals so that an overshoot in progress has
// been recorded, then returns Worst.
func (w *Window) Settle() time.Duration {
	time.Sleep(5 * interval)
	return w.Worst()
}
