// Package refnone is a hand-written reference peer for OPC UA TCP + UA Secure
// Conversation under SecurityPolicy#None (no cryptography), written from
// Part 6 (6.7.2 MessageChunk structure, 7.1 UA-TCP) and independent of
// gopcua's uacp / uasc packages: HEL/ACK as client and as server, the OPN
// exchange as client and as server, MSG / CLO chunks with any chunk type,
// channel id, token id, sequence number and request id, abort chunks, and a
// Part 6 sequence number generator with a configurable wrap-around.
//
// The gopcua ua package is used only to encode / decode *service bodies*
// (OpenSecureChannelRequest / Response and whatever the caller sends).
package refnone

import (
	"encoding/binary"
	"fmt"
	"io"
	"net"
	"time"

	"github.com/gopcua/opcua/ua"
)

// PolicyNone is the URI of SecurityPolicy#None.
const PolicyNone = "http://opcfoundation.org/UA/SecurityPolicy#None"

// Type ids (ns=0, numeric) of the binary encodings used by the OPN exchange.
const (
	idOpenSecureChannelRequest  = 446
	idOpenSecureChannelResponse = 449
)

// SymHeaderLen is the size of message header + symmetric security header +
// sequence header of a MSG / CLO chunk under policy None.
const SymHeaderLen = 12 + 4 + 8

// Limits are the four transport limits of a Hello / Acknowledge.
type Limits struct {
	RecvBuf, SendBuf, MaxMsg, MaxChunks uint32
}

// DefaultLimits: 64 KiB buffers, no message limits.
var DefaultLimits = Limits{RecvBuf: 65535, SendBuf: 65535}

func le32(b []byte, v uint32) []byte { return binary.LittleEndian.AppendUint32(b, v) }

func uaString(b []byte, s string) []byte {
	b = le32(b, uint32(len(s)))
	return append(b, s...)
}

// uaBytes appends a ByteString; nil is the null ByteString (length -1).
func uaBytes(b []byte, d []byte) []byte {
	if d == nil {
		return le32(b, 0xffffffff)
	}
	b = le32(b, uint32(len(d)))
	return append(b, d...)
}

func frame(typ string, chunk byte, body []byte) []byte {
	b := make([]byte, 0, 8+len(body))
	b = append(b, typ[:3]...)
	b = append(b, chunk)
	b = le32(b, uint32(8+len(body)))
	return append(b, body...)
}

// Hello encodes a HEL message.
func Hello(l Limits, endpoint string) []byte {
	var b []byte
	b = le32(b, 0) // protocol version
	b = le32(b, l.RecvBuf)
	b = le32(b, l.SendBuf)
	b = le32(b, l.MaxMsg)
	b = le32(b, l.MaxChunks)
	b = uaString(b, endpoint)
	return frame("HEL", 'F', b)
}

// Ack encodes an ACK message.
func Ack(l Limits) []byte {
	var b []byte
	b = le32(b, 0)
	b = le32(b, l.RecvBuf)
	b = le32(b, l.SendBuf)
	b = le32(b, l.MaxMsg)
	b = le32(b, l.MaxChunks)
	return frame("ACK", 'F', b)
}

// ReadFrame reads one UA-TCP frame (8-byte header + rest) of at most max bytes.
func ReadFrame(r io.Reader, max int) ([]byte, error) {
	hdr := make([]byte, 8)
	if _, err := io.ReadFull(r, hdr); err != nil {
		return nil, err
	}
	n := int(binary.LittleEndian.Uint32(hdr[4:]))
	if n < 8 || n > max {
		return nil, fmt.Errorf("refnone: frame size %d out of range (type %q)", n, hdr[:4])
	}
	b := make([]byte, n)
	copy(b, hdr)
	if _, err := io.ReadFull(r, b[8:]); err != nil {
		return nil, err
	}
	return b, nil
}

func parseLimits(b []byte) (Limits, error) {
	if len(b) < 20 {
		return Limits{}, fmt.Errorf("refnone: short HEL/ACK body (%d bytes)", len(b))
	}
	if v := binary.LittleEndian.Uint32(b); v != 0 {
		return Limits{}, fmt.Errorf("refnone: protocol version %d", v)
	}
	return Limits{
		RecvBuf:   binary.LittleEndian.Uint32(b[4:]),
		SendBuf:   binary.LittleEndian.Uint32(b[8:]),
		MaxMsg:    binary.LittleEndian.Uint32(b[12:]),
		MaxChunks: binary.LittleEndian.Uint32(b[16:]),
	}, nil
}

// Conn is a TCP connection after the HEL/ACK handshake.
type Conn struct {
	net.Conn
	// Peer holds the limits the peer announced (the ACK when we are the client,
	// the HEL when we are the server).
	Peer Limits
}

// Dial connects as a client and performs HEL/ACK.
func Dial(addr, endpoint string, l Limits, timeout time.Duration) (*Conn, error) {
	c, err := net.DialTimeout("tcp", addr, timeout)
	if err != nil {
		return nil, err
	}
	if tc, ok := c.(*net.TCPConn); ok {
		tc.SetNoDelay(true)
	}
	c.SetDeadline(time.Now().Add(timeout))
	if _, err := c.Write(Hello(l, endpoint)); err != nil {
		c.Close()
		return nil, err
	}
	f, err := ReadFrame(c, 1<<16)
	if err != nil {
		c.Close()
		return nil, fmt.Errorf("refnone: reading ACK: %w", err)
	}
	if string(f[:4]) != "ACKF" {
		c.Close()
		return nil, fmt.Errorf("refnone: expected ACKF, got %q", f[:4])
	}
	p, err := parseLimits(f[8:])
	if err != nil {
		c.Close()
		return nil, err
	}
	c.SetDeadline(time.Time{})
	return &Conn{Conn: c, Peer: p}, nil
}

// Listener accepts raw TCP connections for a reference server.
type Listener struct{ net.Listener }

// Listen opens a loopback listener.
func Listen() (*Listener, error) {
	ln, err := net.Listen("tcp", "127.0.0.1:0")
	if err != nil {
		return nil, err
	}
	return &Listener{ln}, nil
}

// Endpoint is the opc.tcp URL of the listener.
func (l *Listener) Endpoint() string { return "opc.tcp://" + l.Addr().String() }

// Accept accepts one connection, reads the HEL and answers with an ACK.
func (l *Listener) Accept(ack Limits, timeout time.Duration) (*Conn, error) {
	if tl, ok := l.Listener.(*net.TCPListener); ok {
		tl.SetDeadline(time.Now().Add(timeout))
	}
	c, err := l.Listener.Accept()
	if err != nil {
		return nil, err
	}
	if tc, ok := c.(*net.TCPConn); ok {
		tc.SetNoDelay(true)
	}
	c.SetDeadline(time.Now().Add(timeout))
	f, err := ReadFrame(c, 1<<16)
	if err != nil {
		c.Close()
		return nil, fmt.Errorf("refnone: reading HEL: %w", err)
	}
	if string(f[:4]) != "HELF" {
		c.Close()
		return nil, fmt.Errorf("refnone: expected HELF, got %q", f[:4])
	}
	p, err := parseLimits(f[8:])
	if err != nil {
		c.Close()
		return nil, err
	}
	if _, err := c.Write(Ack(ack)); err != nil {
		c.Close()
		return nil, err
	}
	c.SetDeadline(time.Time{})
	return &Conn{Conn: c, Peer: p}, nil
}

// ---------------------------------------------------------------------------
// Chunks

// SymChunk encodes a MSG / CLO chunk under policy None:
// MessageType(3) ChunkType(1) MessageSize(4) SecureChannelId(4) | TokenId(4) |
// SequenceNumber(4) RequestId(4) | body.
func SymChunk(msgType string, chunkType byte, channelID, tokenID, seq, reqID uint32, data []byte) []byte {
	b := make([]byte, 0, SymHeaderLen+len(data))
	b = append(b, msgType[:3]...)
	b = append(b, chunkType)
	b = le32(b, uint32(SymHeaderLen+len(data)))
	b = le32(b, channelID)
	b = le32(b, tokenID)
	b = le32(b, seq)
	b = le32(b, reqID)
	return append(b, data...)
}

// AsymChunk encodes an OPN chunk: message header, asymmetric security header
// (policy URI, sender certificate, receiver thumbprint), sequence header, body.
// No signature / encryption is applied (policy None semantics), whatever the URI.
func AsymChunk(chunkType byte, channelID uint32, policyURI string, cert, thumb []byte, seq, reqID uint32, data []byte) []byte {
	var sec []byte
	sec = uaString(sec, policyURI)
	sec = uaBytes(sec, cert)
	sec = uaBytes(sec, thumb)
	n := 12 + len(sec) + 8 + len(data)
	b := make([]byte, 0, n)
	b = append(b, "OPN"...)
	b = append(b, chunkType)
	b = le32(b, uint32(n))
	b = le32(b, channelID)
	b = append(b, sec...)
	b = le32(b, seq)
	b = le32(b, reqID)
	return append(b, data...)
}

// OpenChunk is the OPN final chunk under policy None (null certificate and thumbprint).
func OpenChunk(channelID, seq, reqID uint32, data []byte) []byte {
	return AsymChunk('F', channelID, PolicyNone, nil, nil, seq, reqID, data)
}

// AbortData is the body of an abort chunk: status code + reason.
func AbortData(status uint32, reason string) []byte {
	return uaString(le32(nil, status), reason)
}

// TypeIDPrefix is the four-byte ExpandedNodeId (ns=0) that precedes a service body.
func TypeIDPrefix(id uint16) []byte { return []byte{0x01, 0x00, byte(id), byte(id >> 8)} }

// ServiceBody encodes type id + service structure of a registered service.
func ServiceBody(v any) ([]byte, error) {
	id := ua.ServiceTypeID(v)
	if id == 0 {
		return nil, fmt.Errorf("refnone: %T is not a registered service", v)
	}
	b, err := ua.Encode(v)
	if err != nil {
		return nil, err
	}
	return append(TypeIDPrefix(id), b...), nil
}

// OpenRequestBody encodes an OpenSecureChannelRequest (issue, mode None).
func OpenRequestBody(handle uint32, lifetimeMs uint32) ([]byte, error) {
	req := &ua.OpenSecureChannelRequest{
		RequestHeader: &ua.RequestHeader{
			AuthenticationToken: ua.NewTwoByteNodeID(0),
			Timestamp:           time.Unix(1_700_000_000, 0).UTC(),
			RequestHandle:       handle,
			AdditionalHeader:    ua.NewExtensionObject(nil),
		},
		ClientProtocolVersion: 0,
		RequestType:           ua.SecurityTokenRequestTypeIssue,
		SecurityMode:          ua.MessageSecurityModeNone,
		ClientNonce:           []byte{},
		RequestedLifetime:     lifetimeMs,
	}
	b, err := ua.Encode(req)
	if err != nil {
		return nil, err
	}
	return append(TypeIDPrefix(idOpenSecureChannelRequest), b...), nil
}

// OpenResponseBody encodes an OpenSecureChannelResponse.
func OpenResponseBody(handle, channelID, tokenID, lifetimeMs uint32) ([]byte, error) {
	now := time.Now().UTC()
	resp := &ua.OpenSecureChannelResponse{
		ResponseHeader: &ua.ResponseHeader{
			Timestamp:          now,
			RequestHandle:      handle,
			ServiceDiagnostics: &ua.DiagnosticInfo{},
			StringTable:        []string{},
			AdditionalHeader:   ua.NewExtensionObject(nil),
		},
		SecurityToken: &ua.ChannelSecurityToken{ChannelID: channelID, TokenID: tokenID, CreatedAt: now, RevisedLifetime: lifetimeMs},
		ServerNonce:   []byte{},
	}
	b, err := ua.Encode(resp)
	if err != nil {
		return nil, err
	}
	return append(TypeIDPrefix(idOpenSecureChannelResponse), b...), nil
}

// Chunk is a parsed chunk (policy None: nothing is encrypted).
type Chunk struct {
	MsgType   string
	ChunkType byte
	ChannelID uint32
	// OPN only
	PolicyURI   string
	Certificate []byte
	Thumbprint  []byte
	// MSG / CLO only
	TokenID uint32

	Seq, ReqID uint32
	Data       []byte
}

type rd struct {
	b   []byte
	err error
}

func (r *rd) u32() uint32 {
	if r.err != nil || len(r.b) < 4 {
		r.err = io.ErrUnexpectedEOF
		return 0
	}
	v := binary.LittleEndian.Uint32(r.b)
	r.b = r.b[4:]
	return v
}

func (r *rd) bytes() []byte {
	n := r.u32()
	if r.err != nil || n == 0xffffffff {
		return nil
	}
	if uint64(n) > uint64(len(r.b)) {
		r.err = io.ErrUnexpectedEOF
		return nil
	}
	d := append([]byte{}, r.b[:n]...)
	r.b = r.b[n:]
	return d
}

// ParseChunk parses an unencrypted OPN / MSG / CLO chunk.
func ParseChunk(f []byte) (*Chunk, error) {
	if len(f) < 12 {
		return nil, fmt.Errorf("refnone: chunk of %d bytes", len(f))
	}
	if int(binary.LittleEndian.Uint32(f[4:])) != len(f) {
		return nil, fmt.Errorf("refnone: size field %d, frame has %d bytes", binary.LittleEndian.Uint32(f[4:]), len(f))
	}
	c := &Chunk{MsgType: string(f[:3]), ChunkType: f[3], ChannelID: binary.LittleEndian.Uint32(f[8:])}
	r := &rd{b: f[12:]}
	switch c.MsgType {
	case "OPN":
		c.PolicyURI = string(r.bytes())
		c.Certificate = r.bytes()
		c.Thumbprint = r.bytes()
	case "MSG", "CLO":
		c.TokenID = r.u32()
	default:
		return nil, fmt.Errorf("refnone: message type %q", c.MsgType)
	}
	c.Seq = r.u32()
	c.ReqID = r.u32()
	if r.err != nil {
		return nil, r.err
	}
	c.Data = r.b
	return c, nil
}

// ParseOpenResponse extracts channel id and token id from the body of an OPN response.
func ParseOpenResponse(data []byte) (channelID, tokenID uint32, err error) {
	if len(data) < 4 || data[0] != 1 || data[1] != 0 || uint16(data[2])|uint16(data[3])<<8 != idOpenSecureChannelResponse {
		return 0, 0, fmt.Errorf("refnone: OPN response body does not start with the OpenSecureChannelResponse type id")
	}
	resp := new(ua.OpenSecureChannelResponse)
	if _, err := ua.Decode(data[4:], resp); err != nil {
		return 0, 0, err
	}
	if resp.ResponseHeader == nil || resp.SecurityToken == nil {
		return 0, 0, fmt.Errorf("refnone: incomplete OpenSecureChannelResponse")
	}
	if resp.ResponseHeader.ServiceResult != ua.StatusOK {
		return 0, 0, resp.ResponseHeader.ServiceResult
	}
	return resp.SecurityToken.ChannelID, resp.SecurityToken.TokenID, nil
}

// ParseOpenRequest extracts the request handle of an OPN request body.
func ParseOpenRequest(data []byte) (*ua.OpenSecureChannelRequest, error) {
	if len(data) < 4 || data[0] != 1 || data[1] != 0 || uint16(data[2])|uint16(data[3])<<8 != idOpenSecureChannelRequest {
		return nil, fmt.Errorf("refnone: OPN request body does not start with the OpenSecureChannelRequest type id")
	}
	req := new(ua.OpenSecureChannelRequest)
	if _, err := ua.Decode(data[4:], req); err != nil {
		return nil, err
	}
	return req, nil
}

// ---------------------------------------------------------------------------
// Sequence numbers (Part 6, 6.7.2.4): +1 per chunk; the number shall not wrap
// before it is greater than UInt32.MaxValue-1024 (4 294 966 271); the first
// number after the wrap shall be less than 1024 (0 is allowed).

// WrapMin is the smallest sequence number after which a sender may wrap.
const WrapMin = 4294966272 // UInt32.MaxValue - 1024 + 1

// Seq generates the sequence numbers of one sender.
type Seq struct {
	next      uint32
	WrapAfter uint32 // the number after which the sender wraps (>= WrapMin)
	WrapTo    uint32 // first number after the wrap (< 1024)
}

// NewSeq returns a generator whose first number is start. wrapAfter is clamped
// to [WrapMin, MaxUint32], wrapTo to [0, 1023].
func NewSeq(start, wrapAfter, wrapTo uint32) *Seq {
	if wrapAfter < WrapMin {
		wrapAfter = WrapMin
	}
	if wrapTo > 1023 {
		wrapTo = 1023
	}
	return &Seq{next: start, WrapAfter: wrapAfter, WrapTo: wrapTo}
}

// Next returns the number for the next chunk.
func (s *Seq) Next() uint32 {
	v := s.next
	if v >= s.WrapAfter {
		s.next = s.WrapTo
	} else {
		s.next = v + 1
	}
	return v
}

// Peek returns the number Next would return.
func (s *Seq) Peek() uint32 { return s.next }

// ---------------------------------------------------------------------------
// OPN exchange

// Channel is an opened policy-None channel as seen by the reference peer.
type Channel struct {
	*Conn
	ChannelID, TokenID uint32
	Seq                *Seq
}

// OpenAsClient sends the OPN request (first sequence number of seq, request id
// reqID) and reads the OPN response.
func OpenAsClient(c *Conn, seq *Seq, reqID uint32, timeout time.Duration) (*Channel, error) {
	body, err := OpenRequestBody(reqID, 3600_000)
	if err != nil {
		return nil, err
	}
	c.SetDeadline(time.Now().Add(timeout))
	defer c.SetDeadline(time.Time{})
	if _, err := c.Write(OpenChunk(0, seq.Next(), reqID, body)); err != nil {
		return nil, err
	}
	f, err := ReadFrame(c, 1<<24)
	if err != nil {
		return nil, fmt.Errorf("refnone: reading OPN response: %w", err)
	}
	ch, err := ParseChunk(f)
	if err != nil {
		return nil, err
	}
	if ch.MsgType != "OPN" || ch.ChunkType != 'F' {
		return nil, fmt.Errorf("refnone: expected OPNF, got %s%c", ch.MsgType, ch.ChunkType)
	}
	if ch.ReqID != reqID {
		return nil, fmt.Errorf("refnone: OPN response has request id %d, want %d", ch.ReqID, reqID)
	}
	cid, tid, err := ParseOpenResponse(ch.Data)
	if err != nil {
		return nil, err
	}
	return &Channel{Conn: c, ChannelID: cid, TokenID: tid, Seq: seq}, nil
}

// OpenAsServer reads the OPN request and answers it, issuing the given ids.
func OpenAsServer(c *Conn, seq *Seq, channelID, tokenID uint32, timeout time.Duration) (*Channel, error) {
	c.SetDeadline(time.Now().Add(timeout))
	defer c.SetDeadline(time.Time{})
	f, err := ReadFrame(c, 1<<24)
	if err != nil {
		return nil, fmt.Errorf("refnone: reading OPN request: %w", err)
	}
	ch, err := ParseChunk(f)
	if err != nil {
		return nil, err
	}
	if ch.MsgType != "OPN" || ch.ChunkType != 'F' {
		return nil, fmt.Errorf("refnone: expected OPNF, got %s%c", ch.MsgType, ch.ChunkType)
	}
	req, err := ParseOpenRequest(ch.Data)
	if err != nil {
		return nil, err
	}
	body, err := OpenResponseBody(req.RequestHeader.RequestHandle, channelID, tokenID, req.RequestedLifetime)
	if err != nil {
		return nil, err
	}
	if _, err := c.Write(OpenChunk(channelID, seq.Next(), ch.ReqID, body)); err != nil {
		return nil, err
	}
	return &Channel{Conn: c, ChannelID: channelID, TokenID: tokenID, Seq: seq}, nil
}

// Msg returns a MSG chunk of this channel with the next sequence number.
func (c *Channel) Msg(chunkType byte, reqID uint32, data []byte) []byte {
	return SymChunk("MSG", chunkType, c.ChannelID, c.TokenID, c.Seq.Next(), reqID, data)
}
