// Package netx holds the network fixtures: a frame-aware man-in-the-middle
// proxy (Tap) that records, mutates, drops, duplicates and injects UA-TCP
// frames, loopback TCP pairs and a segmenting writer.
package netx

import (
	"encoding/binary"
	"fmt"
	"io"
	"net"
	"sync"
	"time"
)

// Dir is the direction of a frame through the tap.
type Dir int

const (
	C2S Dir = iota // client -> server
	S2C            // server -> client
)

func (d Dir) String() string {
	if d == C2S {
		return "c2s"
	}
	return "s2c"
}

// Frame is one recorded UA-TCP frame (header + body), as forwarded.
type Frame struct {
	Dir  Dir
	Data []byte
	At   time.Time
	Conn int // index of the proxied connection
}

// Type returns the 3-letter message type, Chunk the chunk type.
func (f Frame) Type() string {
	if len(f.Data) < 4 {
		return ""
	}
	return string(f.Data[:3])
}

// Chunk returns the chunk type byte.
func (f Frame) Chunk() byte {
	if len(f.Data) < 4 {
		return 0
	}
	return f.Data[3]
}

// Hook decides what is forwarded for a frame read from one side: the returned
// frames are written to the other side in order (nil = drop). It runs on the
// pump goroutine of that direction.
type Hook func(dir Dir, conn int, frame []byte) [][]byte

// Tap is a frame-aware TCP proxy.
type Tap struct {
	ln       net.Listener
	upstream string

	mu     sync.Mutex
	hook   Hook
	frames []Frame
	conns  []*tapConn
	closed bool
	refuse bool
	accept int
}

type tapConn struct {
	down, up net.Conn
	wmu      [2]sync.Mutex
}

// NewTap starts a proxy in front of upstream ("127.0.0.1:port").
func NewTap(upstream string) (*Tap, error) {
	ln, err := net.Listen("tcp", "127.0.0.1:0")
	if err != nil {
		return nil, err
	}
	t := &Tap{ln: ln, upstream: upstream}
	go t.acceptLoop()
	return t, nil
}

// Addr is the address clients connect to.
func (t *Tap) Addr() string { return t.ln.Addr().String() }

// SetHook installs the hook (nil = forward unchanged).
func (t *Tap) SetHook(h Hook) { t.mu.Lock(); t.hook = h; t.mu.Unlock() }

// SetUpstream changes where new connections are forwarded.
func (t *Tap) SetUpstream(addr string) { t.mu.Lock(); t.upstream = addr; t.mu.Unlock() }

// Refuse makes the tap close new connections immediately (outage).
func (t *Tap) Refuse(on bool) { t.mu.Lock(); t.refuse = on; t.mu.Unlock() }

// Accepted returns how many connections were accepted so far.
func (t *Tap) Accepted() int { t.mu.Lock(); defer t.mu.Unlock(); return t.accept }

// Frames returns a copy of the recorded frames.
func (t *Tap) Frames() []Frame {
	t.mu.Lock()
	defer t.mu.Unlock()
	return append([]Frame(nil), t.frames...)
}

// Close stops the proxy and closes all connections.
func (t *Tap) Close() {
	t.mu.Lock()
	t.closed = true
	conns := append([]*tapConn(nil), t.conns...)
	t.mu.Unlock()
	t.ln.Close()
	for _, c := range conns {
		c.down.Close()
		c.up.Close()
	}
}

// Reset closes all current connections abruptly (RST where possible).
func (t *Tap) Reset() {
	t.mu.Lock()
	conns := append([]*tapConn(nil), t.conns...)
	t.conns = nil
	t.mu.Unlock()
	for _, c := range conns {
		if tc, ok := c.down.(*net.TCPConn); ok {
			tc.SetLinger(0)
		}
		if tc, ok := c.up.(*net.TCPConn); ok {
			tc.SetLinger(0)
		}
		c.down.Close()
		c.up.Close()
	}
}

// Inject writes a frame to one side of the most recent connection.
func (t *Tap) Inject(dir Dir, frame []byte) error {
	t.mu.Lock()
	if len(t.conns) == 0 {
		t.mu.Unlock()
		return fmt.Errorf("tap: no connection")
	}
	c := t.conns[len(t.conns)-1]
	idx := len(t.conns) - 1
	t.frames = append(t.frames, Frame{Dir: dir, Data: append([]byte(nil), frame...), At: time.Now(), Conn: idx})
	t.mu.Unlock()
	return c.write(dir, frame)
}

func (c *tapConn) write(dir Dir, b []byte) error {
	c.wmu[dir].Lock()
	defer c.wmu[dir].Unlock()
	w := c.up
	if dir == S2C {
		w = c.down
	}
	_, err := w.Write(b)
	return err
}

func (t *Tap) acceptLoop() {
	for {
		down, err := t.ln.Accept()
		if err != nil {
			return
		}
		t.mu.Lock()
		t.accept++
		refuse, up := t.refuse, t.upstream
		closed := t.closed
		t.mu.Unlock()
		if refuse || closed {
			down.Close()
			continue
		}
		upc, err := net.DialTimeout("tcp", up, 2*time.Second)
		if err != nil {
			down.Close()
			continue
		}
		if tc, ok := down.(*net.TCPConn); ok {
			tc.SetNoDelay(true)
		}
		if tc, ok := upc.(*net.TCPConn); ok {
			tc.SetNoDelay(true)
		}
		c := &tapConn{down: down, up: upc}
		t.mu.Lock()
		t.conns = append(t.conns, c)
		idx := len(t.conns) - 1
		t.mu.Unlock()
		go t.pump(c, idx, C2S, down, upc)
		go t.pump(c, idx, S2C, upc, down)
	}
}

func (t *Tap) pump(c *tapConn, idx int, dir Dir, r, w net.Conn) {
	defer func() {
		// propagate the close to the other side
		if tc, ok := w.(*net.TCPConn); ok {
			tc.CloseWrite()
		} else {
			w.Close()
		}
	}()
	hdr := make([]byte, 8)
	for {
		if _, err := io.ReadFull(r, hdr); err != nil {
			return
		}
		size := binary.LittleEndian.Uint32(hdr[4:])
		if size < 8 || size > 64<<20 {
			// not a frame: forward raw from here on
			c.write(dir, hdr)
			io.Copy(w, r)
			return
		}
		frame := make([]byte, size)
		copy(frame, hdr)
		if _, err := io.ReadFull(r, frame[8:]); err != nil {
			return
		}
		t.mu.Lock()
		h := t.hook
		t.mu.Unlock()
		out := [][]byte{frame}
		if h != nil {
			out = h(dir, idx, frame)
		}
		for _, f := range out {
			t.mu.Lock()
			t.frames = append(t.frames, Frame{Dir: dir, Data: append([]byte(nil), f...), At: time.Now(), Conn: idx})
			t.mu.Unlock()
			if err := c.write(dir, f); err != nil {
				return
			}
		}
	}
}
