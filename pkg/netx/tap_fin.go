package netx

// FinAll closes all current connections in an orderly way (FIN instead of the
// RST of Reset; the kernel still answers with RST when unread data is pending).
// Like Reset it forgets the connections, so the conn index passed to the hook
// starts at 0 again for the next accepted connection.
func (t *Tap) FinAll() {
	t.mu.Lock()
	conns := append([]*tapConn(nil), t.conns...)
	t.conns = nil
	t.mu.Unlock()
	for _, c := range conns {
		c.down.Close()
		c.up.Close()
	}
}
