package netx

import "encoding/binary"

// ChunkInfo is what can be read from a secure conversation chunk without keys.
type ChunkInfo struct {
	Type      string // MSG, OPN, CLO
	Chunk     byte   // F, C, A
	Size      uint32
	ChannelID uint32
	TokenID   uint32 // MSG/CLO
	Policy    string // OPN
	Seq       uint32
	ReqID     uint32
	SeqOK     bool // sequence header readable (not encrypted)
}

// ParseChunk reads the clear parts of a chunk. encrypted tells whether the
// body of MSG/CLO chunks is encrypted (SignAndEncrypt); OPN chunks of a policy
// other than None are always encrypted.
func ParseChunk(f []byte, encrypted bool) (ChunkInfo, bool) {
	var ci ChunkInfo
	if len(f) < 12 {
		return ci, false
	}
	ci.Type = string(f[:3])
	ci.Chunk = f[3]
	ci.Size = binary.LittleEndian.Uint32(f[4:])
	ci.ChannelID = binary.LittleEndian.Uint32(f[8:])
	switch ci.Type {
	case "MSG", "CLO":
		if len(f) < 16 {
			return ci, false
		}
		ci.TokenID = binary.LittleEndian.Uint32(f[12:])
		if !encrypted && len(f) >= 24 {
			ci.Seq = binary.LittleEndian.Uint32(f[16:])
			ci.ReqID = binary.LittleEndian.Uint32(f[20:])
			ci.SeqOK = true
		}
		return ci, true
	case "OPN":
		pos := 12
		str := func() ([]byte, bool) {
			if pos+4 > len(f) {
				return nil, false
			}
			n := int32(binary.LittleEndian.Uint32(f[pos:]))
			pos += 4
			if n <= 0 {
				return nil, true
			}
			if pos+int(n) > len(f) {
				return nil, false
			}
			b := f[pos : pos+int(n)]
			pos += int(n)
			return b, true
		}
		uri, ok := str()
		if !ok {
			return ci, false
		}
		ci.Policy = string(uri)
		if _, ok := str(); !ok {
			return ci, false
		}
		if _, ok := str(); !ok {
			return ci, false
		}
		if ci.Policy == "http://opcfoundation.org/UA/SecurityPolicy#None" && pos+8 <= len(f) {
			ci.Seq = binary.LittleEndian.Uint32(f[pos:])
			ci.ReqID = binary.LittleEndian.Uint32(f[pos+4:])
			ci.SeqOK = true
		}
		return ci, true
	}
	return ci, false
}
