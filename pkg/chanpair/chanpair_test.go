package chanpair

import (
	"context"
	"testing"
	"time"

	"github.com/gopcua/opcua/ua"
	"verif/pkg/keys"
)

func TestSmoke(t *testing.T) {
	for _, pol := range Policies {
		for _, enc := range []bool{false, true} {
			ks := KeySizes(pol)
			p, err := New(Options{Policy: pol, Mode: ModeFor(pol, enc), ClientKey: keys.Get("a", ks[0]), ServerKey: keys.Get("b", ks[len(ks)-1]), Tap: true})
			if err != nil {
				t.Fatalf("%s %v: %v", pol, enc, err)
			}
			go func() {
				m := p.ServerReceive(5 * time.Second)
				if m == nil || m.Err != nil {
					t.Errorf("server recv: %+v", m)
					return
				}
				rr := m.Request().(*ua.ReadRequest)
				resp := &ua.ReadResponse{ResponseHeader: &ua.ResponseHeader{RequestHandle: rr.RequestHeader.RequestHandle, ServiceDiagnostics: &ua.DiagnosticInfo{}, AdditionalHeader: ua.NewExtensionObject(nil), StringTable: []string{}},
					Results: []*ua.DataValue{{EncodingMask: 1, Value: ua.MustVariant(make([]byte, 100000))}}}
				if err := p.Server.SendResponseWithContext(context.Background(), m.RequestID, resp); err != nil {
					t.Errorf("send resp: %v", err)
				}
			}()
			var got int
			err = p.Client.SendRequest(context.Background(), &ua.ReadRequest{NodesToRead: []*ua.ReadValueID{{NodeID: ua.NewStringNodeID(1, string(make([]byte, 70000))), DataEncoding: &ua.QualifiedName{}}}}, nil, func(r ua.Response) error {
				got = len(r.(*ua.ReadResponse).Results[0].Value.Value().([]byte))
				return nil
			})
			if err != nil || got != 100000 {
				t.Fatalf("%s %v: err=%v got=%d", pol, enc, err, got)
			}
			t.Logf("%s enc=%v frames=%d", pol, enc, len(p.Tap.Frames()))
			p.Close()
		}
	}
}
