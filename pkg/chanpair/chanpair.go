// Package chanpair connects a gopcua client secure channel to a gopcua server
// secure channel over loopback TCP, using the public API only (uacp.Listen /
// Dial, uasc.NewSecureChannel / NewServerSecureChannel, Open / Receive), with an
// optional frame-aware tap in between.
package chanpair

import (
	"context"
	"fmt"
	"net"
	"sync"
	"time"

	"github.com/gopcua/opcua/ua"
	"github.com/gopcua/opcua/uacp"
	"github.com/gopcua/opcua/uapolicy"
	"github.com/gopcua/opcua/uasc"

	"verif/pkg/keys"
	"verif/pkg/netx"
)

// Options configures a pair.
type Options struct {
	Policy         string // full URI; "" = None
	Mode           ua.MessageSecurityMode
	ClientKey      *keys.Pair
	ServerKey      *keys.Pair
	ClientACK      *uacp.Acknowledge // nil = copy of the default
	ServerACK      *uacp.Acknowledge
	Lifetime       uint32 // ms, default 1h
	RequestTimeout time.Duration
	RequestIDSeed  uint32
	ServerSeq      uint32 // server's initial sequence number (default 1)
	ChannelID      uint32 // default 1001
	TokenID        uint32 // default 2001
	Tap            bool
	Hook           netx.Hook
	NoOpen         bool // do not open the channel (caller drives Open / Receive)
}

// Pair is an established client/server channel pair.
type Pair struct {
	Opts       Options
	Client     *uasc.SecureChannel
	Server     *uasc.SecureChannel
	ClientConn *uacp.Conn
	ServerConn *uacp.Conn
	Tap        *netx.Tap
	ClientErr  chan error
	ServerErr  chan error
	Endpoint   string

	ln   *uacp.Listener
	once sync.Once
}

// ModeFor returns a valid mode for the policy given a drawn preference.
func ModeFor(policy string, encrypt bool) ua.MessageSecurityMode {
	if policy == "" || policy == ua.SecurityPolicyURINone {
		return ua.MessageSecurityModeNone
	}
	if encrypt {
		return ua.MessageSecurityModeSignAndEncrypt
	}
	return ua.MessageSecurityModeSign
}

func copyACK(a *uacp.Acknowledge, def *uacp.Acknowledge) *uacp.Acknowledge {
	if a == nil {
		a = def
	}
	c := *a
	return &c
}

// New builds the pair and (unless NoOpen) opens the channel.
func New(o Options) (*Pair, error) {
	if o.Policy == "" {
		o.Policy = ua.SecurityPolicyURINone
	}
	if o.Mode == ua.MessageSecurityModeInvalid {
		o.Mode = ModeFor(o.Policy, true)
	}
	if o.Lifetime == 0 {
		o.Lifetime = 3600_000
	}
	if o.RequestTimeout == 0 {
		o.RequestTimeout = 5 * time.Second
	}
	if o.ServerSeq == 0 {
		o.ServerSeq = 1
	}
	if o.ChannelID == 0 {
		o.ChannelID = 1001
	}
	if o.TokenID == 0 {
		o.TokenID = 2001
	}
	secure := o.Policy != ua.SecurityPolicyURINone
	if secure && (o.ClientKey == nil || o.ServerKey == nil) {
		return nil, fmt.Errorf("chanpair: keys required for %s", o.Policy)
	}
	p := &Pair{Opts: o, ClientErr: make(chan error, 16), ServerErr: make(chan error, 16)}

	ctx := context.Background()
	ln, err := uacp.Listen(ctx, "opc.tcp://127.0.0.1:0", copyACK(o.ServerACK, uacp.DefaultServerACK))
	if err != nil {
		return nil, err
	}
	p.ln = ln
	addr := ln.Addr().String()
	if o.Tap || o.Hook != nil {
		tap, err := netx.NewTap(addr)
		if err != nil {
			ln.Close()
			return nil, err
		}
		tap.SetHook(o.Hook)
		p.Tap = tap
		addr = tap.Addr()
	}
	p.Endpoint = "opc.tcp://" + addr

	type acc struct {
		c   *uacp.Conn
		err error
	}
	accCh := make(chan acc, 1)
	go func() {
		c, err := ln.Accept(ctx)
		accCh <- acc{c, err}
	}()

	dctx, cancel := context.WithTimeout(ctx, 10*time.Second)
	defer cancel()
	d := &uacp.Dialer{Dialer: &net.Dialer{}, ClientACK: copyACK(o.ClientACK, uacp.DefaultClientACK)}
	cc, err := d.Dial(dctx, p.Endpoint)
	if err != nil {
		p.Close()
		return nil, fmt.Errorf("chanpair: dial: %w", err)
	}
	p.ClientConn = cc
	select {
	case a := <-accCh:
		if a.err != nil {
			p.Close()
			return nil, fmt.Errorf("chanpair: accept: %w", a.err)
		}
		p.ServerConn = a.c
	case <-time.After(10 * time.Second):
		p.Close()
		return nil, fmt.Errorf("chanpair: accept timed out")
	}

	ccfg := &uasc.Config{SecurityPolicyURI: o.Policy, SecurityMode: o.Mode, Lifetime: o.Lifetime, RequestTimeout: o.RequestTimeout, RequestIDSeed: o.RequestIDSeed}
	scfg := &uasc.Config{SecurityPolicyURI: ua.SecurityPolicyURINone, SecurityMode: ua.MessageSecurityModeNone, Lifetime: 3600_000, RequestTimeout: o.RequestTimeout}
	if secure {
		ccfg.Certificate = o.ClientKey.Cert
		ccfg.LocalKey = o.ClientKey.Key
		ccfg.RemoteCertificate = o.ServerKey.Cert
		ccfg.Thumbprint = uapolicy.Thumbprint(o.ServerKey.Cert)
		scfg.Certificate = o.ServerKey.Cert
		scfg.LocalKey = o.ServerKey.Key
	}
	p.Client, err = uasc.NewSecureChannel(p.Endpoint, cc, ccfg, p.ClientErr)
	if err != nil {
		p.Close()
		return nil, err
	}
	p.Server, err = uasc.NewServerSecureChannel(p.Endpoint, p.ServerConn, scfg, p.ServerErr, o.ChannelID, o.ServerSeq, o.TokenID)
	if err != nil {
		p.Close()
		return nil, err
	}
	if o.NoOpen {
		return p, nil
	}
	// the server's first Receive handles the OPN request and returns an empty body
	srvDone := make(chan *uasc.MessageBody, 1)
	go func() { srvDone <- p.Server.Receive(ctx) }()
	octx, ocancel := context.WithTimeout(ctx, 15*time.Second)
	defer ocancel()
	if err := p.Client.Open(octx); err != nil {
		p.Close()
		return nil, fmt.Errorf("chanpair: open: %w", err)
	}
	select {
	case m := <-srvDone:
		if m.Err != nil {
			p.Close()
			return nil, fmt.Errorf("chanpair: server OPN: %w", m.Err)
		}
	case <-time.After(10 * time.Second):
		p.Close()
		return nil, fmt.Errorf("chanpair: server did not finish OPN")
	}
	return p, nil
}

// ServerReceive calls Server.Receive with a timeout; nil on timeout.
func (p *Pair) ServerReceive(timeout time.Duration) *uasc.MessageBody {
	ctx, cancel := context.WithTimeout(context.Background(), timeout)
	defer cancel()
	ch := make(chan *uasc.MessageBody, 1)
	go func() { ch <- p.Server.Receive(ctx) }()
	select {
	case m := <-ch:
		return m
	case <-time.After(timeout + time.Second):
		return nil
	}
}

// Close tears everything down.
func (p *Pair) Close() {
	p.once.Do(func() {
		if p.ClientConn != nil {
			p.ClientConn.Close()
		}
		if p.ServerConn != nil {
			p.ServerConn.Close()
		}
		if p.Tap != nil {
			p.Tap.Close()
		}
		if p.ln != nil {
			p.ln.Close()
		}
	})
}

// Policies lists the six policy URIs.
var Policies = []string{
	ua.SecurityPolicyURINone,
	ua.SecurityPolicyURIBasic128Rsa15,
	ua.SecurityPolicyURIBasic256,
	ua.SecurityPolicyURIBasic256Sha256,
	ua.SecurityPolicyURIAes128Sha256RsaOaep,
	ua.SecurityPolicyURIAes256Sha256RsaPss,
}

// KeySizes returns the fixture key sizes a policy allows.
func KeySizes(policy string) []int {
	switch policy {
	case ua.SecurityPolicyURIBasic128Rsa15, ua.SecurityPolicyURIBasic256:
		return []int{1024, 1536, 2048}
	case ua.SecurityPolicyURINone:
		return []int{2048}
	}
	return []int{2048, 3072, 4096}
}
