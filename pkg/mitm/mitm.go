// Package mitm holds what the man-in-the-middle properties (C09 tampering, C10
// replay) share on top of pkg/chanpair: secured policy table, tagged request /
// response payloads whose content is a pure function of (tag, pad) so that a
// delivered message can be compared with what the sender produced, a Receive
// wrapper that turns a panic into a value, and small frame helpers.
//
// Nothing in here judges a property; oracles live in props/cNN.
package mitm

import (
	"context"
	"encoding/binary"
	"errors"
	"fmt"
	"io"
	"strconv"
	"strings"
	"time"

	"github.com/gopcua/opcua/ua"
	"github.com/gopcua/opcua/uacp"
	"github.com/gopcua/opcua/uasc"

	"verif/pkg/chanpair"
	"verif/pkg/keys"
)

// Secured lists the five policies that sign (and optionally encrypt).
var Secured = []string{
	ua.SecurityPolicyURIBasic128Rsa15,
	ua.SecurityPolicyURIBasic256,
	ua.SecurityPolicyURIBasic256Sha256,
	ua.SecurityPolicyURIAes128Sha256RsaOaep,
	ua.SecurityPolicyURIAes256Sha256RsaPss,
}

// Short is the fragment of a policy URI.
func Short(policy string) string {
	if i := strings.LastIndexByte(policy, '#'); i >= 0 {
		return policy[i+1:]
	}
	return policy
}

// PolicyByShort is the inverse of Short over Secured ("" if unknown).
func PolicyByShort(s string) string {
	for _, p := range Secured {
		if Short(p) == s {
			return p
		}
	}
	return ""
}

// SigLen is the symmetric signature length of a policy as the specification
// defines it (HMAC-SHA1 = 20, HMAC-SHA256 = 32). Used for class labels only.
func SigLen(policy string) int {
	switch policy {
	case ua.SecurityPolicyURIBasic128Rsa15, ua.SecurityPolicyURIBasic256:
		return 20
	}
	return 32
}

// Keys returns the smallest fixture keys a policy admits (handshake cost).
func Keys(policy string) (client, server *keys.Pair) {
	switch policy {
	case ua.SecurityPolicyURIBasic128Rsa15, ua.SecurityPolicyURIBasic256:
		return keys.Get("a", 1024), keys.Get("b", 1024)
	}
	return keys.Get("a", 2048), keys.Get("b", 2048)
}

// Mode maps "Sign" / "SignAndEncrypt".
func Mode(s string) ua.MessageSecurityMode {
	if s == "Sign" {
		return ua.MessageSecurityModeSign
	}
	return ua.MessageSecurityModeSignAndEncrypt
}

// ACK returns transport limits with the given buffer (= chunk) size.
func ACK(buf uint32) *uacp.Acknowledge {
	return &uacp.Acknowledge{ReceiveBufSize: buf, SendBufSize: buf, MaxChunkCount: 512, MaxMessageSize: 2 * 1024 * 1024}
}

// ---------------------------------------------------------------------------
// payloads

// filler returns pad bytes that are a pure function of (tag, pad).
func filler(tag, pad int) string {
	if pad <= 0 {
		return ""
	}
	b := make([]byte, pad)
	x := uint32(tag)*2654435761 + uint32(pad)*40503 + 12345
	for i := range b {
		x = x*1664525 + 1013904223
		b[i] = 'a' + byte((x>>24)%26)
	}
	return string(b)
}

// Text is the tagged string carried by request (node id) and response (value).
func Text(tag, pad int) string {
	return "tag:" + strconv.Itoa(tag) + ":" + strconv.Itoa(pad) + ":" + filler(tag, pad)
}

// ParseText extracts tag and pad and says whether the whole text is exactly
// what Text(tag, pad) produces.
func ParseText(s string) (tag, pad int, intact bool) {
	parts := strings.SplitN(s, ":", 4)
	if len(parts) != 4 || parts[0] != "tag" {
		return -1, 0, false
	}
	tag, err1 := strconv.Atoi(parts[1])
	pad, err2 := strconv.Atoi(parts[2])
	if err1 != nil || err2 != nil || tag < 0 || pad < 0 || pad > 1<<22 {
		return -1, 0, false
	}
	return tag, pad, s == Text(tag, pad)
}

// Request builds the tagged request (all pointer fields set).
func Request(tag, pad int) *ua.ReadRequest {
	return &ua.ReadRequest{
		MaxAge:             float64(tag),
		TimestampsToReturn: ua.TimestampsToReturnNeither,
		NodesToRead: []*ua.ReadValueID{{
			NodeID:       ua.NewStringNodeID(1, Text(tag, pad)),
			AttributeID:  ua.AttributeIDValue,
			IndexRange:   "",
			DataEncoding: &ua.QualifiedName{},
		}},
	}
}

// RequestText returns the tagged text of a delivered request ("" if the shape
// is not the one Request builds).
func RequestText(r ua.Request) (string, bool) {
	rr, ok := r.(*ua.ReadRequest)
	if !ok || rr == nil || len(rr.NodesToRead) != 1 || rr.NodesToRead[0] == nil || rr.NodesToRead[0].NodeID == nil {
		return "", false
	}
	n := rr.NodesToRead[0]
	if n.NodeID.Type() != ua.NodeIDTypeString || n.NodeID.Namespace() != 1 || n.AttributeID != ua.AttributeIDValue {
		return "", false
	}
	tag, _, _ := ParseText(n.NodeID.StringID())
	if float64(tag) != rr.MaxAge {
		return "", false
	}
	return n.NodeID.StringID(), true
}

// Response builds the tagged response.
func Response(handle uint32, tag, pad int) *ua.ReadResponse {
	return &ua.ReadResponse{
		ResponseHeader: &ua.ResponseHeader{
			Timestamp:          time.Unix(1700000000, 0).UTC(),
			RequestHandle:      handle,
			ServiceDiagnostics: &ua.DiagnosticInfo{},
			AdditionalHeader:   ua.NewExtensionObject(nil),
			StringTable:        []string{},
		},
		Results: []*ua.DataValue{{EncodingMask: ua.DataValueValue, Value: ua.MustVariant(Text(tag, pad))}},
	}
}

// ResponseText returns the tagged text of a delivered response.
func ResponseText(r ua.Response) (string, bool) {
	rr, ok := r.(*ua.ReadResponse)
	if !ok || rr == nil || len(rr.Results) != 1 || rr.Results[0] == nil || rr.Results[0].Value == nil {
		return "", false
	}
	s, ok := rr.Results[0].Value.Value().(string)
	return s, ok
}

// ---------------------------------------------------------------------------
// Receive wrapper

// Result is what one Receive call produced.
type Result struct {
	Msg      *uasc.MessageBody
	Panic    string // non-empty: Receive panicked with this value (plus innermost frames)
	TimedOut bool   // the harness gave up waiting (never a verdict)
}

// Receive calls sc.Receive on its own goroutine, recovers a panic and gives up
// after timeout (the goroutine is left behind; closing the connection ends it).
func Receive(sc *uasc.SecureChannel, timeout time.Duration) Result {
	ch := make(chan Result, 1)
	go func() {
		defer func() {
			if r := recover(); r != nil {
				ch <- Result{Panic: fmt.Sprintf("%v", r)}
			}
		}()
		ch <- Result{Msg: sc.Receive(context.Background())}
	}()
	select {
	case r := <-ch:
		return r
	case <-time.After(timeout):
		return Result{TimedOut: true}
	}
}

// ErrClass buckets a Receive error for the evidence histogram.
func ErrClass(err error) string {
	if err == nil {
		return "nil"
	}
	var sc ua.StatusCode
	var ue *uacp.Error
	switch {
	case err == io.EOF:
		return "EOF"
	case errors.As(err, &sc):
		if d, ok := ua.StatusCodes[sc]; ok {
			return "status:" + strings.TrimPrefix(d.Name, "Status")
		}
		return fmt.Sprintf("status:0x%X", uint32(sc))
	case errors.As(err, &ue):
		return "uacp-ERR-frame"
	}
	s := err.Error()
	for _, k := range []string{"message too large", "message too small", "decode chunk failed", "decode header failed", "decode sequence header failed",
		"unable to find instance", "invalid message type", "unknown message type", "openingInstance", "too many chunks", "read header failed",
		"connection reset", "use of closed", "unexpected EOF", "EOF"} {
		if strings.Contains(s, k) {
			return strings.ReplaceAll(k, " ", "-")
		}
	}
	if strings.HasPrefix(s, "opcua: ") {
		return "service-decode-error" // body of a spliced / garbled message did not decode
	}
	return "other"
}

// ---------------------------------------------------------------------------
// frames

// Size reads the MessageSize field of a frame (0 if shorter than 8 bytes).
func Size(f []byte) uint32 {
	if len(f) < 8 {
		return 0
	}
	return binary.LittleEndian.Uint32(f[4:])
}

// SetSize writes the MessageSize field.
func SetSize(f []byte, n uint32) { binary.LittleEndian.PutUint32(f[4:], n) }

// IsMSG reports whether a frame is a symmetric service chunk.
func IsMSG(f []byte) bool { return len(f) >= 4 && string(f[:3]) == "MSG" }

// Clone copies a frame.
func Clone(f []byte) []byte { return append([]byte(nil), f...) }

// HardClose tears a pair down without leaving sockets in TIME_WAIT (tens of
// thousands of short-lived pairs otherwise exhaust the ephemeral ports and
// later pairs fail with "bind: address already in use"): the tap resets its
// connections and the endpoints close with SO_LINGER 0. Only for use after all
// observations of a case were made - a reset discards data in flight. The
// channels' Close methods are called afterwards to end their timer goroutines.
func HardClose(p *chanpair.Pair) {
	if p == nil {
		return
	}
	if p.Tap != nil {
		p.Tap.Reset()
	}
	if p.ClientConn != nil && p.ClientConn.TCPConn != nil {
		_ = p.ClientConn.SetLinger(0)
	}
	if p.ServerConn != nil && p.ServerConn.TCPConn != nil {
		_ = p.ServerConn.SetLinger(0)
	}
	p.Close()
	for _, sc := range []*uasc.SecureChannel{p.Client, p.Server} {
		if sc == nil {
			continue
		}
		sc := sc
		go func() {
			defer func() { _ = recover() }()
			_ = sc.Close()
		}()
	}
}
