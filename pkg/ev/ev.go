// Package ev is the evidence recorder shared by all property packages.
//
// A property package creates one Recorder per property (ev.For("C24", rule)),
// calls Case() once per executed case, Sample() for cases worth showing, and
// Fail() when the oracle rejects a case. TestMain calls ev.Main(m), which
// flushes a "part" file the driver (cmd/vdriver) merges into
// /verif/evidence/<id>.json.
package ev

import (
	"bufio"
	"crypto/sha256"
	"encoding/binary"
	"encoding/json"
	"fmt"
	"os"
	"path/filepath"
	"sort"
	"strconv"
	"strings"
	"sync"
	"syscall"
	"testing"
)

// Root is the /verif directory (overridable for development).
func Root() string {
	if r := os.Getenv("VERIF_ROOT"); r != "" {
		return r
	}
	return "/verif"
}

// Tier returns "quick" or "thorough".
func Tier() string {
	if os.Getenv("VERIF_TIER") == "thorough" {
		return "thorough"
	}
	return "quick"
}

// Thorough reports whether the thorough tier runs.
func Thorough() bool { return Tier() == "thorough" }

// Pick returns q in the quick tier and t in the thorough tier.
func Pick[T any](q, t T) T {
	if Thorough() {
		return t
	}
	return q
}

// Seed returns VERIF_SEED (default 1).
func Seed() int64 {
	s, err := strconv.ParseInt(os.Getenv("VERIF_SEED"), 10, 64)
	if err != nil {
		return 1
	}
	return s
}

// Shard returns (index, count) of this process among sibling shards.
func Shard() (int, int) {
	i, _ := strconv.Atoi(os.Getenv("VERIF_SHARD"))
	n, _ := strconv.Atoi(os.Getenv("VERIF_SHARDS"))
	if n <= 0 {
		n = 1
	}
	return i, n
}

// Part is what one process contributes to an evidence file.
type Part struct {
	Property    string            `json:"property"`
	Rule        string            `json:"rule"`
	Evaluations int64             `json:"evaluations"`
	Nontrivial  []string          `json:"nontrivial_hashes"`
	Classes     map[string]int64  `json:"classes"`
	Excluded    map[string]int64  `json:"excluded"`
	Samples     []json.RawMessage `json:"samples"`
	Assumptions []string          `json:"assumptions"`
	Extra       map[string]any    `json:"extra"`
	Violations  int64             `json:"violations"`
	Exhaustive  bool              `json:"exhaustive"`
	Inconcl     int64             `json:"inconclusive"`
}

// Recorder collects evidence for one property in one process.
type Recorder struct {
	mu         sync.Mutex
	prop       string
	rule       string
	evals      int64
	nontrivial map[uint64]struct{}
	classes    map[string]int64
	excluded   map[string]int64
	samples    []json.RawMessage
	nsamples   int64
	assume     []string
	extra      map[string]any
	violations int64
	exhaustive bool
	inconcl    int64
}

var (
	regMu sync.Mutex
	reg   = map[string]*Recorder{}
)

// For returns the process-wide recorder of a property.
func For(prop, rule string) *Recorder {
	regMu.Lock()
	defer regMu.Unlock()
	if r, ok := reg[prop]; ok {
		if rule != "" && !strings.Contains(r.rule, rule) {
			r.rule += " | " + rule
		}
		return r
	}
	r := &Recorder{prop: prop, rule: rule, nontrivial: map[uint64]struct{}{}, classes: map[string]int64{}, excluded: map[string]int64{}, extra: map[string]any{}}
	reg[prop] = r
	return r
}

// Hash is a helper producing the distinctness key of a case.
func Hash(parts ...any) uint64 {
	h := sha256.New()
	for _, p := range parts {
		switch v := p.(type) {
		case []byte:
			var l [8]byte
			binary.LittleEndian.PutUint64(l[:], uint64(len(v)))
			h.Write(l[:])
			h.Write(v)
		case string:
			var l [8]byte
			binary.LittleEndian.PutUint64(l[:], uint64(len(v)))
			h.Write(l[:])
			h.Write([]byte(v))
		default:
			fmt.Fprintf(h, "%T:%v|", p, p)
		}
	}
	return binary.LittleEndian.Uint64(h.Sum(nil)[:8])
}

// Case records one executed case. key identifies the case for the distinct
// count; it is only stored when nontrivial is true.
func (r *Recorder) Case(nontrivial bool, key uint64, classes ...string) {
	r.mu.Lock()
	r.evals++
	if nontrivial {
		r.nontrivial[key] = struct{}{}
	}
	for _, c := range classes {
		if c != "" {
			r.classes[c]++
		}
	}
	r.mu.Unlock()
}

// Class bumps a class counter without counting a case.
func (r *Recorder) Class(c string) { r.ClassN(c, 1) }

// ClassN adds n to a class counter.
func (r *Recorder) ClassN(c string, n int64) {
	r.mu.Lock()
	r.classes[c] += n
	r.mu.Unlock()
}

// Sample offers a case as a sample; a bounded, deterministic selection is kept
// (the first 3 offered and then those at power-of-two positions, max 8).
func (r *Recorder) Sample(v any) {
	r.mu.Lock()
	defer r.mu.Unlock()
	r.nsamples++
	n := r.nsamples
	keep := n <= 3 || (n&(n-1)) == 0
	if !keep || len(r.samples) >= 8 {
		return
	}
	b, err := json.Marshal(v)
	if err != nil {
		b, _ = json.Marshal(fmt.Sprintf("%+v", v))
	}
	if len(b) > 2000 {
		b, _ = json.Marshal(string(b[:1900]) + "…(truncated)")
	}
	r.samples = append(r.samples, b)
}

// WantSample reports whether the next Sample call would be kept (lets callers
// avoid building expensive descriptions).
func (r *Recorder) WantSample() bool {
	r.mu.Lock()
	defer r.mu.Unlock()
	n := r.nsamples + 1
	return len(r.samples) < 8 && (n <= 3 || (n&(n-1)) == 0)
}

// Assume records an assumption / trusted-base statement.
func (r *Recorder) Assume(s string) {
	r.mu.Lock()
	defer r.mu.Unlock()
	for _, a := range r.assume {
		if a == s {
			return
		}
	}
	r.assume = append(r.assume, s)
}

// Extra stores an additional coverage key.
func (r *Recorder) Extra(k string, v any) {
	r.mu.Lock()
	r.extra[k] = v
	r.mu.Unlock()
}

// Exhaustive marks the run as a complete enumeration of a finite space.
func (r *Recorder) Exhaustive() { r.mu.Lock(); r.exhaustive = true; r.mu.Unlock() }

// Inconclusive counts a case whose verdict was dropped (timing confirmation failed).
func (r *Recorder) Inconclusive() { r.mu.Lock(); r.inconcl++; r.mu.Unlock() }

// Excluded counts a case attributed to a listed known finding.
func (r *Recorder) Excluded(id string) { r.mu.Lock(); r.excluded[id]++; r.mu.Unlock() }

func (r *Recorder) part() Part {
	r.mu.Lock()
	defer r.mu.Unlock()
	p := Part{Property: r.prop, Rule: r.rule, Evaluations: r.evals, Classes: r.classes, Excluded: r.excluded,
		Samples: r.samples, Assumptions: r.assume, Extra: r.extra, Violations: r.violations, Exhaustive: r.exhaustive, Inconcl: r.inconcl}
	hs := make([]uint64, 0, len(r.nontrivial))
	for h := range r.nontrivial {
		hs = append(hs, h)
	}
	sort.Slice(hs, func(i, j int) bool { return hs[i] < hs[j] })
	for _, h := range hs {
		p.Nontrivial = append(p.Nontrivial, strconv.FormatUint(h, 16))
	}
	return p
}

// Flush writes the part files of all recorders of this process.
func Flush() {
	dir := os.Getenv("VERIF_PART_DIR")
	if dir == "" {
		return
	}
	regMu.Lock()
	defer regMu.Unlock()
	for prop, r := range reg {
		p := r.part()
		b, _ := json.Marshal(p)
		name := fmt.Sprintf("%s-%d-%d.part.json", prop, os.Getpid(), len(b))
		_ = os.WriteFile(filepath.Join(dir, name), b, 0o644)
	}
}

// Main is the TestMain body of every property package.
func Main(m *testing.M) {
	if mb, err := strconv.ParseUint(os.Getenv("VERIF_AS_LIMIT_MB"), 10, 64); err == nil && mb > 0 {
		// an allocation bomb must end this child, not the machine
		lim := syscall.Rlimit{Cur: mb << 20, Max: mb << 20}
		_ = syscall.Setrlimit(syscall.RLIMIT_AS, &lim)
	}
	code := m.Run()
	Flush()
	os.Exit(code)
}

// ---------------------------------------------------------------------------
// Violations and replay files

// ReplayDir is where failing cases of the current run are written.
func ReplayDir() string {
	if d := os.Getenv("VERIF_REPLAY_DIR"); d != "" {
		return d
	}
	return filepath.Join(Root(), "replays", "dev")
}

// Replay is the on-disk form of a failing case.
type Replay struct {
	Property string          `json:"property"`
	Test     string          `json:"test"`
	Message  string          `json:"message"`
	Case     json.RawMessage `json:"case"`
	// FailFile is the content of rapid's fail file (added by the driver) for
	// properties whose case is a drawn history rather than plain data.
	FailFile string `json:"rapid_failfile,omitempty"`
}

// TB is the subset of testing.TB / *rapid.T that Fail needs.
type TB interface {
	Helper()
	Fatalf(format string, args ...any)
}

// WriteReplay stores a failing case. The file name is a function of (property,
// test), so during rapid's shrinking every smaller failing case overwrites the
// previous one and the file finally holds the minimal case.
func (r *Recorder) WriteReplay(test string, c any, msg string) string {
	b, err := json.MarshalIndent(c, "", " ")
	if err != nil {
		b, _ = json.Marshal(fmt.Sprintf("%+v", c))
	}
	rp := Replay{Property: r.prop, Test: test, Message: msg, Case: b}
	out, _ := json.MarshalIndent(rp, "", " ")
	dir := ReplayDir()
	_ = os.MkdirAll(dir, 0o755)
	sh, _ := Shard()
	path := filepath.Join(dir, fmt.Sprintf("%s-%s-s%d.json", r.prop, sanitize(test), sh))
	_ = os.WriteFile(path, out, 0o644)
	r.mu.Lock()
	r.violations++
	r.mu.Unlock()
	return path
}

// Fail records a violation (replay file) and fails the test.
func (r *Recorder) Fail(t TB, test string, c any, format string, args ...any) {
	t.Helper()
	msg := fmt.Sprintf(format, args...)
	path := r.WriteReplay(test, c, msg)
	t.Fatalf("property %s violated: %s (replay %s)", r.prop, msg, path)
}

func sanitize(s string) string {
	var b strings.Builder
	for _, c := range s {
		if c >= 'a' && c <= 'z' || c >= 'A' && c <= 'Z' || c >= '0' && c <= '9' || c == '_' {
			b.WriteRune(c)
		} else {
			b.WriteByte('_')
		}
	}
	return b.String()
}

// LoadReplay reads the replay file named by VERIF_REPLAY (nil if unset).
func LoadReplay() (*Replay, error) {
	p := os.Getenv("VERIF_REPLAY")
	if p == "" {
		return nil, nil
	}
	b, err := os.ReadFile(p)
	if err != nil {
		return nil, err
	}
	var rp Replay
	if err := json.Unmarshal(b, &rp); err != nil {
		return nil, err
	}
	return &rp, nil
}

// ---------------------------------------------------------------------------
// Journal (child-process discipline): the case about to be executed is written
// to a file first, so that if the process dies the driver can name the culprit.

var journalMu sync.Mutex

// Journal writes the case about to be executed. The file is kept open and
// rewritten in place (two system calls), so journalling every case is cheap.
func (r *Recorder) Journal(test string, c any) {
	dir := os.Getenv("VERIF_JOURNAL_DIR")
	if dir == "" {
		return
	}
	b, err := json.Marshal(c)
	if err != nil {
		b, _ = json.Marshal(fmt.Sprintf("%+v", c))
	}
	rp := Replay{Property: r.prop, Test: test, Message: "process died while executing this case", Case: b}
	out, _ := json.Marshal(rp)
	journalMu.Lock()
	defer journalMu.Unlock()
	f := r.journalFile(dir, test)
	if f == nil {
		return
	}
	_ = f.Truncate(0)
	_, _ = f.WriteAt(out, 0)
}

var journalFiles = map[string]*os.File{}

func (r *Recorder) journalFile(dir, test string) *os.File {
	sh, _ := Shard()
	name := filepath.Join(dir, fmt.Sprintf("%s-%s-s%d.journal.json", r.prop, sanitize(test), sh))
	if f, ok := journalFiles[name]; ok {
		return f
	}
	f, err := os.OpenFile(name, os.O_CREATE|os.O_RDWR, 0o644)
	if err != nil {
		return nil
	}
	journalFiles[name] = f
	return f
}

// JournalDone empties the journal entry (the case finished); the driver
// ignores empty journals.
func (r *Recorder) JournalDone(test string) {
	dir := os.Getenv("VERIF_JOURNAL_DIR")
	if dir == "" {
		return
	}
	journalMu.Lock()
	defer journalMu.Unlock()
	if f := r.journalFile(dir, test); f != nil {
		_ = f.Truncate(0)
	}
}

// ---------------------------------------------------------------------------
// Known findings (read-only at run time)

// Finding is one line of KNOWN_FINDINGS.txt.
type Finding struct {
	Status   string // "open" or "fixed"
	Property string
	ID       string // open: finding id; fixed: commit
	Sig      string // open only: signature matched by checks
	What     string
}

var (
	kfOnce sync.Once
	kf     []Finding
)

// Findings parses /verif/KNOWN_FINDINGS.txt.
//
//	open: property=C02 id=KF-C02-1 sig=<signature without spaces> :: what fails
//	fixed: property=C02 <commit> what failed
func Findings() []Finding {
	kfOnce.Do(func() {
		f, err := os.Open(filepath.Join(Root(), "KNOWN_FINDINGS.txt"))
		if err != nil {
			return
		}
		defer f.Close()
		sc := bufio.NewScanner(f)
		sc.Buffer(make([]byte, 1<<20), 1<<20)
		for sc.Scan() {
			line := strings.TrimSpace(sc.Text())
			if line == "" || strings.HasPrefix(line, "#") {
				continue
			}
			switch {
			case strings.HasPrefix(line, "open:"):
				rest := strings.TrimSpace(strings.TrimPrefix(line, "open:"))
				head, what, _ := strings.Cut(rest, "::")
				fd := Finding{Status: "open", What: strings.TrimSpace(what)}
				for _, tok := range strings.Fields(head) {
					k, v, _ := strings.Cut(tok, "=")
					switch k {
					case "property":
						fd.Property = v
					case "id":
						fd.ID = v
					case "sig":
						fd.Sig = v
					}
				}
				kf = append(kf, fd)
			case strings.HasPrefix(line, "fixed:"):
				toks := strings.Fields(strings.TrimPrefix(line, "fixed:"))
				if len(toks) >= 2 {
					fd := Finding{Status: "fixed", ID: toks[1], What: strings.Join(toks[2:], " ")}
					fd.Property = strings.TrimPrefix(toks[0], "property=")
					kf = append(kf, fd)
				}
			}
		}
	})
	return kf
}

// Known reports whether sig is the signature of an OPEN finding of the
// property; if so the case is counted as excluded.
func (r *Recorder) Known(sig string) bool {
	for _, f := range Findings() {
		if f.Status == "open" && f.Property == r.prop && f.Sig == sig {
			r.Excluded(f.ID)
			return true
		}
	}
	return false
}

// HasOpen reports whether an open finding with this id exists (lets
// generators exclude a class by construction).
func HasOpen(prop, id string) bool {
	for _, f := range Findings() {
		if f.Status == "open" && f.Property == prop && f.ID == id {
			return true
		}
	}
	return false
}
