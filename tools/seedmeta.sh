#!/bin/bash
# tools/seedmeta.sh <Cnn> <A|B> <src file in SEED/v> <dest path in repo> <demo cmd>  -> writes SEED/v/meta.json if missing
id=$1; v=$2; low=$(echo $id | tr 'A-Z' 'a-z'); d=/tmp/seed-$low/SEED/$v
[ -f $d/meta.json ] && { echo "meta exists"; exit 0; }
python3 - "$d" "$3" "$4" "$5" <<'PY'
import json,sys
d,src,dest,cmd=sys.argv[1:5]
json.dump({"demo_files":[{"src":src,"dest":dest}],"demo_cmd":cmd,"breaks":"see README.md","needs":"see README.md"},open(d+'/meta.json','w'),indent=1)
PY
