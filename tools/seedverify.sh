#!/bin/bash
# tools/seedverify.sh <Cnn> <A|B>
# Confirms a seeded change delivered by a seeding sub-agent in /tmp/seed-cnn/SEED/<v>/:
#   1. patch applies to a fresh worktree of /repo HEAD and the tree builds (with and without -tags verif)
#   2. the repository's own suite still passes with it (stable-pass list of BASELINE.json)
#   3. the demonstration fails with the change and passes without it
#   4. runs our check (quick, then thorough if quick is green) against the changed tree
# and stores everything under /verif/seeded/<Cnn>-<v>/ (patch.diff, demo files, meta.json, result.txt).
set -u
id=$1; v=$2
low=$(echo $id | tr 'A-Z' 'a-z')
src=/tmp/seed-$low/SEED/$v
wt=/tmp/sv-$low-$v
out=/verif/seeded/$id-$v
export GOPROXY=off GOSUMDB=off GOTOOLCHAIN=local
[ -f $src/patch.diff ] || { echo "no $src/patch.diff"; exit 2; }
git -C /repo worktree remove --force $wt 2>/dev/null
git -C /repo worktree add -q --detach $wt HEAD || exit 2
mkdir -p $out
res=$out/result.txt; : > $res
say() { echo "$@" | tee -a $res; }
cleanup() { git -C /repo worktree remove --force $wt 2>/dev/null; rm -f /verif/bin/*.$(printf '%s' "$wt" | sha256sum | cut -c1-10).test /verif/run/alt-$(printf '%s' "$wt" | sha256sum | cut -c1-10).*; }
cp $src/patch.diff $out/patch.diff
[ -f $src/meta.json ] && cp $src/meta.json $out/agent-meta.json
[ -f $src/README.md ] && cp $src/README.md $out/README.md
cd $wt
patch=$src/patch.diff
if ! git apply $patch 2>>$res; then
  # made against an earlier HEAD of /repo: three-way merge, keep the rebased patch
  if git apply -3 $patch >>$res 2>&1 && ! git diff --name-only --diff-filter=U | grep -q .; then
    git add -A; git diff --cached HEAD > $out/patch.diff; git reset -q
    patch=$out/patch.diff
    : > $res; say "NOTE patch was made against an earlier HEAD; rebased with git apply -3 (stored patch.diff is the rebased one)"
  else
    say "RESULT patch does not apply"; cleanup; exit 1
  fi
fi
if git diff --name-only | grep -q '_test.go$'; then say "NOTE patch touches test files"; fi
if ! (GOFLAGS= go build ./... && GOFLAGS= go build -tags verif ./...) >>$res 2>&1; then say "RESULT does not build"; cleanup; exit 1; fi
say "builds: yes"
# 2. suite
# the suite uses the fixed port 4840 (tests/go, examples/browse): one suite run at a time
flock /tmp/sv-suite.lock env GOFLAGS= go test -json -vet=off -count=1 -timeout 25m ./... > /tmp/sv-$low-$v.json 2>/dev/null
missing=$(python3 - /tmp/sv-$low-$v.json <<'PY'
import json,sys
base=json.load(open('/root/.vp/BASELINE.json')); want=set(base['stable_pass']); passed=set()
for l in open(sys.argv[1]):
    try: e=json.loads(l)
    except: continue
    if e.get('Action')=='pass' and e.get('Test'): passed.add(e['Package']+'::'+e['Test'])
m=sorted(want-passed); print(len(m), ' '.join(m[:6]))
PY
)
rm -f /tmp/sv-$low-$v.json
say "suite: stable-pass tests missing with the change: $missing"
# 3. demo
demo_ok=unknown
if [ -f $src/meta.json ]; then
  python3 - $src $wt <<'PY' >>$res 2>&1
import json,sys,shutil,os
src,wt=sys.argv[1],sys.argv[2]
m=json.load(open(src+'/meta.json'))
for f in m.get('demo_files',[]):
    d=os.path.join(wt,f['dest']); os.makedirs(os.path.dirname(d),exist_ok=True); shutil.copy(os.path.join(src,f['src']),d)
    od=os.path.join('/verif/seeded',os.path.basename(src.rstrip('/')) and '', '');
open(wt+'/.demo_cmd','w').write(m.get('demo_cmd',''))
PY
  for f in $(python3 -c "import json;[print(x['src']) for x in json.load(open('$src/meta.json')).get('demo_files',[])]"); do cp $src/$f $out/ 2>/dev/null; done
  cmd=$(cat $wt/.demo_cmd)
  if [ -n "$cmd" ]; then
    (cd $wt && GOFLAGS= timeout 300 bash -c "$cmd") > $out/demo-with-change.log 2>&1; rc1=$?
    git -C $wt apply -R $patch
    (cd $wt && GOFLAGS= timeout 300 bash -c "$cmd") > $out/demo-without-change.log 2>&1; rc2=$?
    git -C $wt apply $patch
    say "demo: exit with change=$rc1, without change=$rc2"
    if [ $rc1 -ne 0 ] && [ $rc2 -eq 0 ]; then demo_ok=yes; else demo_ok=no; fi
  fi
fi
say "demo confirmed: $demo_ok"
# remove the demo files from the worktree so that they do not affect our check
git -C $wt clean -fdq
# 4. our check
cd /verif
VERIF_REPO=$wt ./check $id quick > $out/check-quick.log 2>&1; rcq=$?
say "check $id quick against the change: exit $rcq ($(grep -c '^VIOLATION' $out/check-quick.log) violation lines)"
if [ $rcq -eq 0 ] && [ "${SEED_THOROUGH:-1}" = 1 ]; then
  VERIF_REPO=$wt timeout 3600 ./check $id thorough > $out/check-thorough.log 2>&1; rct=$?
  say "check $id thorough against the change: exit $rct ($(grep -c '^VIOLATION' $out/check-thorough.log) violation lines)"
fi
# keep logs small
for f in $out/check-*.log $out/demo-*.log; do [ -f $f ] && tail -c 6000 $f > $f.tmp && mv $f.tmp $f; done
# restore the evidence file of the real tree later (the caller re-runs the check on /repo)
cleanup
say "done"
