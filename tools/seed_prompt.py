#!/usr/bin/env python3
"""Prints the prompt for a seeding sub-agent for one property id (only the property text, nothing from /verif)."""
import json, sys
pid = sys.argv[1]
p = [json.loads(l) for l in open('/verif/properties.jsonl') if json.loads(l)['id'] == pid][0]
wt = f"/tmp/seed-{pid.lower()}"
print(f"""You are a careful Go engineer helping to evaluate a verification tool by planting realistic bugs. You work ONLY inside the git worktree {wt} (a checkout of the open-source library gopcua/opcua, a native Go implementation of OPC UA: binary codec in ua/, UACP transport in uacp/, secure channel in uasc/, crypto policies in uapolicy/, client in the root package, server in server/, node monitor in monitor/). Do NOT read or write anything under /verif or /repo, and do not look at other /tmp/seed-* directories.

Shell environment for every command: run Go with `GOFLAGS= GOPROXY=off GOSUMDB=off GOTOOLCHAIN=local` (no network; all dependencies are in the module cache). Build tag `verif` exists in the tree for test hooks; ignore it (do not put your change behind a build tag, do not touch files named verif_*.go).

The property (this is ALL you are told about what the tool checks):

  {p['id']} - {p['title']}
  Statement: {p['statement']}
  Quantified over: {p['quantifier']['text']}

Task: produce up to TWO different, realistic changes ("A" and "B") to the library source (not to tests) that each BREAK this property while the tree still compiles (`go build ./... && go vet ./<touched pkg>` clean enough to build) and the existing test suite of the touched packages and their dependants still passes (`go test -vet=off -count=1 ./ua/ ./uacp/ ./uapolicy/ ./uasc/ . ./monitor/... ./server/... ./tests/go/...` — note ./tests/go and ./examples/browse use the fixed port 4840, run them one at a time, and other people on this machine may be using that port at the same moment: if those two fail with a bind/connection error just retry later; uacp TestResolveEndpoint needs DNS and fails offline regardless: ignore that one). The changes should look like plausible programmer mistakes or plausible "optimisations"/refactorings (off-by-one, wrong field, missing lock, dropped check, stale cached value, wrong branch for an edge case, two cooperating sites that each look fine alone), and they should need something SPECIFIC to manifest — a particular interleaving, a fault or crash at a particular point, a multi-step sequence of operations, an unusual input or configuration, a boundary value — not something that ordinary use would expose at once. Small diffs (typically 1-15 changed lines).

For each change deliver, under {wt}/SEED/A/ (and SEED/B/):
  * patch.diff  — `git diff` of the library change only (apply-able with `git apply` on the pristine worktree HEAD);
  * a demonstration: a Go test file (say which package directory it has to be copied into, e.g. demo_test.go for package uasc) or a small main program, which FAILS (or panics / hangs past its own timeout / reports the violation) with the change applied and PASSES on the pristine tree; keep it self-contained and fast (< 60 s); it may use only the library's public API or, if it lives in the package directory, package internals;
  * README.md — which clause of the property the change breaks, what exactly is needed for it to manifest, and the exact commands you ran with their outcome (build, test suite, demo with and without the change).
  * meta.json — {{"demo_files": [{{"src": "<file name inside SEED/A/>", "dest": "<path relative to the worktree root where it must be copied, e.g. uasc/seed_demo_test.go>"}}], "demo_cmd": "<exact shell command, run from the worktree root with the Go environment above, that runs the demonstration, e.g. go test -vet=off -count=1 -run '^TestSeedDemo$' ./uasc/>", "breaks": "<one sentence: which clause of the property>", "needs": "<one sentence: what it needs to manifest>"}}; the demo command must exit non-zero with the change applied and 0 on the pristine tree.
Verify all of that yourself before you finish: start from the pristine tree (`git -C {wt} status` clean, `git -C {wt} checkout -- .` as needed; never use `git stash`: the stash is shared by all worktrees of this repository and other people use it; keep your change as a file instead: `git diff > /tmp/...; git checkout -- .; git apply file`), apply A, build, run the suite, run the demo (must fail), revert, run the demo (must pass); same for B. Leave the worktree's tracked files pristine at the end (only the untracked SEED/ directory remains). If you can only find one good change, deliver one. Finish with a short summary of A and B.""")
