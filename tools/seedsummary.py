#!/usr/bin/env python3
"""Writes seeded/<id>/meta.json for every verified seed and prints a markdown table for DESIGN.md section 11."""
import json, os, re, glob

ROOT = os.path.dirname(os.path.dirname(os.path.abspath(__file__)))
rows = []
for d in sorted(glob.glob(os.path.join(ROOT, "seeded", "C*-*"))):
    name = os.path.basename(d)
    prop, var = name.split("-")
    res = open(os.path.join(d, "result.txt")).read() if os.path.exists(os.path.join(d, "result.txt")) else ""
    am = {}
    if os.path.exists(os.path.join(d, "agent-meta.json")):
        try:
            am = json.load(open(os.path.join(d, "agent-meta.json")))
        except Exception:
            am = {}
    builds = "builds: yes" in res
    m = re.search(r"stable-pass tests missing with the change: (\d+)", res)
    suite_missing = int(m.group(1)) if m else None
    demo = "demo confirmed: yes" in res
    q = re.search(r"check \S+ quick against the change: exit (\d+) \((\d+) violation", res)
    t = re.search(r"check \S+ thorough against the change: exit (\d+) \((\d+) violation", res)
    follow = open(os.path.join(d, "followup.txt")).read().strip() if os.path.exists(os.path.join(d, "followup.txt")) else ""
    caught_q = bool(q and q.group(1) == "1" and int(q.group(2)) > 0)
    caught_t = bool(t and t.group(1) == "1" and int(t.group(2)) > 0)
    if caught_q:
        verdict = "caught by quick"
    elif caught_t:
        verdict = "missed by quick, caught by thorough"
    elif q:
        verdict = "missed" if (q.group(1) == "0") else "no verdict (exit %s)" % q.group(1)
    else:
        verdict = "not run"
    if follow:
        verdict += "; after strengthening: see followup"
    kept = builds and suite_missing == 0 and demo
    meta = {
        "seed": name,
        "property": prop,
        "breaks": am.get("breaks", "see README.md"),
        "needs_to_manifest": am.get("needs", "see README.md"),
        "origin": "fresh sub-agent given only the property text and a scratch worktree (tools/seed_prompt.py)",
        "confirmed_by_lead": {
            "applies_and_builds": builds,
            "stable_pass_tests_missing_with_change": suite_missing,
            "demo_fails_with_change_and_passes_without": demo,
            "command": "tools/seedverify.sh %s %s (fresh worktree of /repo HEAD; go build ./... with and without -tags verif; go test -json ./... compared with BASELINE.json stable_pass; demo_cmd of the agent's meta.json with and without the patch; ./check %s quick [thorough] with VERIF_REPO=<worktree>)" % (prop, var, prop),
        },
        "kept": kept,
        "our_check": {"quick": (q.group(0) if q else None), "thorough": (t.group(0) if t else None), "verdict": verdict, "followup": follow},
        "demo_cmd": am.get("demo_cmd"),
    }
    json.dump(meta, open(os.path.join(d, "meta.json"), "w"), indent=1)
    rows.append((name, kept, verdict, am.get("breaks", "")[:110]))

print("| seed | confirmed | our check | breaks |")
print("|---|---|---|---|")
for r in rows:
    print("| %s | %s | %s | %s |" % (r[0], "yes" if r[1] else "no", r[2], r[3].replace("|", "/")))
