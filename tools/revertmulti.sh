#!/bin/bash
# tools/revertmulti.sh <Cnn> <commit[,commit...]> [tier]   (several commits: reverted in the given order, newest first)
# "Does the violation come back?" - reverts one "fix:" commit of /repo in a
# scratch worktree (nothing is changed in /repo), runs our check for the
# property against that tree (VERIF_REPO) and appends one line to
# /verif/sensitivity/reverts.tsv:
#   property commit tier verdict(exit code / conflict / nobuild) violation-lines first-violation-message
set -u
id=$1; c=$2; tier=${3:-quick}
wt=/tmp/rv-$id-$(echo $c | tr "," "_")
out=/verif/sensitivity; mkdir -p $out
export GOPROXY=off GOSUMDB=off GOTOOLCHAIN=local
git -C /repo worktree remove --force $wt 2>/dev/null
git -C /repo worktree add -q --detach $wt HEAD || exit 2
h=$(printf '%s' "$wt" | sha256sum | cut -c1-10)
cleanup() { git -C /repo worktree remove --force $wt 2>/dev/null; rm -rf $wt; git -C /repo worktree prune; rm -f /verif/bin/*.$h.test /verif/run/alt-$h.*; }
line() { printf '%s\t%s\t%s\t%s\t%s\t%s\n' "$id" "$c" "$tier" "$1" "$2" "$3" | tee -a $out/reverts.tsv; }
ok=1
for one in $(echo $c | tr ',' ' '); do
  git -C $wt -c user.email=x@x -c user.name=x revert --no-commit $one >/dev/null 2>&1 || ok=0
done
if [ $ok = 0 ]; then
  line conflict 0 "revert of $c does not apply cleanly on HEAD (later commits touch the same lines)"; cleanup; exit 0
fi
if ! (cd $wt && GOFLAGS= go build ./... && GOFLAGS= go build -tags verif ./...) >/dev/null 2>&1; then
  line nobuild 0 "tree does not build with $c reverted (later commits depend on it)"; cleanup; exit 0
fi
log=$out/revert-$id-$c.log
(cd /verif && VERIF_REPO=$wt timeout 3000 ./check $id $tier) > $log 2>&1; rc=$?
nv=$(grep -c '^VIOLATION' $log)
msg=$(grep -m1 -E "property $id violated|violated:" $log | cut -c1-220 | tr '\t' ' ')
tail -c 4000 $log > $log.tmp && mv $log.tmp $log
line "exit$rc" "$nv" "$msg"
cleanup
