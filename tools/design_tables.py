#!/usr/bin/env python3
"""Regenerates the tables of DESIGN.md section 11 (between <!-- TABLES --> and <!-- /TABLES -->)
from seeded/*/meta.json (written by tools/seedsummary.py) and sensitivity/reverts.tsv."""
import json, glob, os, re, subprocess
ROOT = os.path.dirname(os.path.dirname(os.path.abspath(__file__)))
subprocess.run(["python3", os.path.join(ROOT, "tools", "seedsummary.py")], stdout=subprocess.DEVNULL)
out = ["<!-- TABLES -->", "", "### 11.1 Seeded changes (fresh sub-agents, property text only)", "",
       "`first run` = verdict of the check as it was when the seed arrived; `now` = after the extension described in `seeded/<id>/followup.txt` (quick tier against the seeded tree).", "",
       "| seed | what it breaks (agent's words, shortened) | confirmed by lead | first run | now |", "|---|---|---|---|---|"]
n = caught = missed = 0
for d in sorted(glob.glob(os.path.join(ROOT, "seeded", "C*-*"))):
    m = json.load(open(os.path.join(d, "meta.json")))
    res = open(os.path.join(d, "result.txt")).read() if os.path.exists(os.path.join(d, "result.txt")) else ""
    v = m["our_check"]["verdict"]
    first = v.split(";")[0]
    follow = m["our_check"]["followup"]
    now = ""
    if "does not apply" in res and not follow:
        first, now = "obsolete: the changed code was replaced by a repair", "-"
    elif follow:
        now = "caught by quick" if ("caught by quick" in follow or "Then caught" in follow or "then caught" in follow) else "see followup.txt"
    elif first.startswith("caught by quick"):
        now = "caught by quick"
    elif "caught by thorough" in first:
        now = "caught by thorough"
    else:
        now = "not caught"
    breaks = (m.get("breaks") or "").replace("|", "/").replace("\n", " ")
    if breaks in ("", "see README.md"):
        rd = os.path.join(d, "README.md")
        if os.path.exists(rd):
            breaks = open(rd).readline().lstrip("# ").strip()
    breaks = breaks[:150]
    conf = "yes" if m["kept"] else ("re-made" if "re-made" in res else "no")
    out.append("| %s | %s | %s | %s | %s |" % (m["seed"], breaks, conf, first, now))
    n += 1
    if first.startswith("caught by quick"): caught += 1
    elif now.startswith("caught"): missed += 1
out += ["", "%d seeds; %d caught by the quick tier at once; %d caught after the check was extended (or by the thorough tier); the rest are unconfirmed or obsolete seeds." % (n, caught, missed), ""]
out += ["### 11.2 Reverted repairs", "",
        "`tools/revertcheck.sh <id> <commit>`: the commit is reverted in a scratch worktree of /repo HEAD and the quick tier runs against it. `conflict` / `nobuild`: later commits build on the repair, it cannot be reverted alone (combined reverts are listed with all commits).", "",
        "| property | reverted commit(s) | quick tier | violation lines | first message |", "|---|---|---|---|---|"]
rows = {}
for line in open(os.path.join(ROOT, "sensitivity", "reverts.tsv")):
    f = line.rstrip("\n").split("\t")
    if len(f) < 6: continue
    rows[(f[0], f[1])] = f
tot = red = 0
for (p, c), f in sorted(rows.items()):
    verdict = {"exit1": "VIOLATION (exit 1)", "exit0": "silent (exit 0)", "exit2": "no verdict (exit 2)"}.get(f[3], f[3])
    msg = re.sub(r"^\s*\S+\.go:\d+:\s*", "", f[5]).replace("|", "/")[:140]
    out.append("| %s | %s | %s | %s | %s |" % (p, c, verdict, f[4], msg))
    if f[3].startswith("exit"):
        tot += 1
        red += f[3] == "exit1"
out += ["", "%d reverts could be executed, %d of them made the quick tier report the violation again." % (tot, red), "", "<!-- /TABLES -->"]
p = os.path.join(ROOT, "DESIGN.md")
s = open(p).read()
if "<!-- /TABLES -->" in s:
    s = re.sub(r"<!-- TABLES -->.*<!-- /TABLES -->", lambda _: "\n".join(out), s, flags=re.S)
else:
    s = s.replace("<!-- TABLES -->", "\n".join(out))
open(p, "w").write(s)
print("tables written:", n, "seeds,", tot, "reverts")
