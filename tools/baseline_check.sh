#!/bin/bash
# Runs the repository's test suite (guard off) and reports stable-pass tests of BASELINE.json that no longer pass.
cd /repo && GOFLAGS= GOPROXY=off go test -json -vet=off -count=1 -timeout 25m ./... > /tmp/baseline.json 2>/dev/null
python3 - <<'PY'
import json
base=json.load(open('/root/.vp/BASELINE.json'))
want=set(base['stable_pass'])
passed=set()
for l in open('/tmp/baseline.json'):
    try: e=json.loads(l)
    except: continue
    if e.get('Action')=='pass' and e.get('Test'):
        passed.add(e['Package']+'::'+e['Test'])
missing=sorted(want-passed)
print('stable_pass:',len(want),'passed now:',len(want&passed),'missing:',len(missing))
for m in missing[:40]: print('  MISSING',m)
PY
rm -f /tmp/baseline.json
