// genkeys writes the RSA fixtures used by the crypto and channel properties
// (test-only keys; run once at authoring time, output is committed).
package main

import (
	"crypto/rand"
	"crypto/rsa"
	"crypto/x509"
	"crypto/x509/pkix"
	"encoding/pem"
	"fmt"
	"math/big"
	"net"
	"net/url"
	"os"
	"time"
)

func main() {
	dir := os.Args[1]
	for _, bits := range []int{768, 1024, 1536, 2048, 3072, 4096, 5120} {
		for _, who := range []string{"a", "b"} {
			key, err := rsa.GenerateKey(rand.Reader, bits)
			if err != nil {
				panic(err)
			}
			uri, _ := url.Parse("urn:verif:gopcua:" + who)
			tpl := x509.Certificate{
				SerialNumber: big.NewInt(int64(bits)*10 + int64(who[0])),
				Subject:      pkix.Name{Organization: []string{"verif"}, CommonName: fmt.Sprintf("verif-%s-%d", who, bits)},
				NotBefore:    time.Date(2020, 1, 1, 0, 0, 0, 0, time.UTC),
				NotAfter:     time.Date(2120, 1, 1, 0, 0, 0, 0, time.UTC),
				KeyUsage:     x509.KeyUsageContentCommitment | x509.KeyUsageKeyEncipherment | x509.KeyUsageDigitalSignature | x509.KeyUsageDataEncipherment | x509.KeyUsageCertSign,
				ExtKeyUsage:  []x509.ExtKeyUsage{x509.ExtKeyUsageServerAuth, x509.ExtKeyUsageClientAuth},
				BasicConstraintsValid: true, IsCA: true,
				DNSNames:    []string{"localhost"},
				IPAddresses: []net.IP{net.ParseIP("127.0.0.1")},
				URIs:        []*url.URL{uri},
			}
			der, err := x509.CreateCertificate(rand.Reader, &tpl, &tpl, &key.PublicKey, key)
			if err != nil {
				panic(err)
			}
			kp := pem.EncodeToMemory(&pem.Block{Type: "RSA PRIVATE KEY", Bytes: x509.MarshalPKCS1PrivateKey(key)})
			cp := pem.EncodeToMemory(&pem.Block{Type: "CERTIFICATE", Bytes: der})
			os.WriteFile(fmt.Sprintf("%s/%s%d.key.pem", dir, who, bits), kp, 0o644)
			os.WriteFile(fmt.Sprintf("%s/%s%d.cert.pem", dir, who, bits), cp, 0o644)
		}
	}
}
