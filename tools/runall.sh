#!/bin/bash
# tools/runall.sh <tier> ids...  -> one line per check
tier=$1; shift
for p in "$@"; do
  out=$(./check $p $tier 2>&1); rc=$?
  echo "$p rc=$rc $(echo "$out" | grep -E "^$p $tier" | tail -1) $(echo "$out" | grep -c '^VIOLATION') violations"
done
