#!/usr/bin/env python3
"""Regenerates /verif/MANIFEST.json from the table below (one entry per claimed property)."""
import json, os, sys

ROOT = os.path.dirname(os.path.dirname(os.path.abspath(__file__)))
sys.path.insert(0, os.path.join(ROOT, "tools"))
from claims import NOT_APPLICABLE, HOOK_COMMITS  # noqa
import glob
CLAIMS = {}
READY = set(open(os.path.join(ROOT, "tools", "ready.txt")).read().split())
for f in sorted(glob.glob(os.path.join(ROOT, "tools", "claims.d", "C*.json"))):
    if os.path.basename(f)[:-5] in READY:  # only checks the lead has accepted are claimed
        CLAIMS[os.path.basename(f)[:-5]] = json.load(open(f))

props = [json.loads(l) for l in open(os.path.join(ROOT, "properties.jsonl"))]
ids = [p["id"] for p in props]

checks = []
for pid in ids:
    c = CLAIMS.get(pid)
    if not c:
        continue
    checks.append({
        "property_id": pid,
        "quick_cmd": f"./check {pid} quick",
        "thorough_cmd": f"./check {pid} thorough",
        "evidence_file": f"/verif/evidence/{pid}.json",
        "replay_cmd_template": f"./check {pid} --replay {{path}}",
        "engine": "vdriver",
        "level_claimed": {"category": c.get("category", "exploration"), "text": c["text"], "design_ref": c.get("design_ref", f"DESIGN.md §4 {pid}")},
        "level_note": c["note"],
        "technique": c["technique"],
    })

na = []
for pid in ids:
    if pid in CLAIMS:
        continue
    na.append({"property_id": pid, "reason": NOT_APPLICABLE.get(pid, "check not built yet in this session (property-based check designed in DESIGN.md §4, implementation pending)")})

manifest = {
    "version": 1,
    "setup_cmd": "cd /verif && export GOFLAGS=-mod=mod GOPROXY=off GOSUMDB=off GOTOOLCHAIN=local && mkdir -p bin && go build -o bin/vdriver ./cmd/vdriver",
    "hooks": {
        "guard": "verif",
        "enable": "go test -tags verif (the driver builds every property's test binary with -tags verif against /repo's working tree via go.mod replace)",
        "baseline_off_cmd": "cd /repo && go test -vet=off -count=1 -timeout 25m ./...",
        "source_commits": HOOK_COMMITS,
        "add_only": True,
    },
    "engines": [
        {"name": "vdriver", "path": "/verif/cmd/vdriver", "serves_properties": [c["property_id"] for c in checks],
         "kind_free_text": "driver for property-based tests (pgregory.net/rapid v1.3.0 generators, state machines and shrinking; native go test -fuzz in the thorough tier); builds props/cNN test binaries from /repo's working tree, shards runs over cores, merges evidence, applies KNOWN_FINDINGS.txt"},
    ],
    "checks": checks,
    "not_applicable": na,
    "notes": "Every check: ./check <id> <quick|thorough>; exit 0 held, 1 VIOLATION line, 2 infrastructure/inconclusive. VERIF_SEED selects the rapid seed. Known findings: /verif/KNOWN_FINDINGS.txt.",
}
json.dump(manifest, open(os.path.join(ROOT, "MANIFEST.json"), "w"), indent=1)
print("claimed:", len(checks), "not claimed:", len(na))
