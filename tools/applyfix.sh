#!/bin/bash
# tools/applyfix.sh <diff> <commit message file or string> [packages...]
# Applies a fix diff to /repo (3-way), builds, runs the given packages' tests and commits.
set -e
diff=$1; msg=$2; shift 2
cd /repo
git apply -3 "$diff"
go build ./... 
go build -tags verif ./...
if [ $# -gt 0 ]; then GOFLAGS= GOPROXY=off go test -vet=off -count=1 "$@" 2>&1 | grep -v "no test files" | tail -8; fi
git add -A
git commit -q -m "$msg"
git log --oneline | head -1
