# Per-property claims; tools/mkmanifest.py turns this into MANIFEST.json.
HOOK_COMMITS = []

CLAIMS = {
 "C24": {
  "technique": "property-based testing (rapid) against a reference model of the selection rule",
  "text": "Generated endpoint lists and queries are judged by a reference written from the property statement (match set, maximum level, error iff empty); exploration of a large generated sample, not a proof.",
  "note": "Trusts the reference's policy-name normalisation table (written independently of ua.SecurityPolicyURIs) and rapid's generators; lists up to 14 endpoints.",
 },
}

NOT_APPLICABLE = {}
