# Shared tables for tools/mkmanifest.py; per-property claims live in tools/claims.d/CNN.json.
HOOK_COMMITS = ["447fb50", "2f22383", "9b82fdd", "a5d8a8e", "f206caf"]

# properties deliberately not claimed, with the reason (others default to "not built yet")
NOT_APPLICABLE = {}
